#!/usr/bin/env python3
"""Regenerates /verif/MANIFEST.json from the table below (run after changing what is claimed)."""
import json, os
ROOT = os.path.dirname(os.path.dirname(os.path.abspath(__file__)))

BASE_NOTE = ("Held on the generated cases only (no absence claim). Trusts proptest's generators, the harness' reference "
             "model / oracle, and that the generated shapes and field types are representative.")

CHECKS = {
 "C01": ("e1_layout", "exploration",
         "property-based testing (proptest, seeded): generated builder histories, validity predicate (pairwise disjointness) after every close; thorough tier adds coverage-guided fuzzing (libFuzzer, ASan) with the same oracle",
         "Seeded random search over builder histories (all four strategies, per-variant mixtures, ZST, odd sizes, alignment up to 16, reused names) with an explicit disjointness oracle checked after every close and on the built definition; failures are shrunk to a minimal history.",
         BASE_NOTE + " Shapes are size = k*align with power-of-two alignment 1..16."),
 "C02": ("e1_layout + e3_gencrate", "exploration",
         "property-based testing (proptest): validity predicates (alignment, containment, address order) on generated histories, incl. emitted constants and the compiled MAX_SIZE / align_of; thorough tier adds coverage-guided fuzzing (libFuzzer, ASan) with the same oracle",
         "Per variant after every close: alignment, containment in max_size() and in the emitted MAX_SIZE, record alignment multiple (emitted repr(align) and compiled align_of), strict address order of the list; compiled modules: size_of >= CAP, MAX_SIZE covers every field.",
         BASE_NOTE),
 "C03": ("e1_layout + e3_gencrate", "exploration",
         "property-based testing (proptest): offset snapshots compared across closes (history invariant); compiled size_of/align_of equality of all generated record types; thorough tier adds coverage-guided fuzzing (libFuzzer, ASan) with the same oracle",
         "(a) offset of every datum snapshotted at its close and compared at every later close; (b) on compiled generated modules (release build) size_of/align_of of RecordUninitialized and every CappedRecordN<CAP>, CAP = MAX_SIZE and MAX_SIZE+5, pairwise equal, and in-place vector conversion keeps the buffer.",
         BASE_NOTE),
 "C04": ("e2_genstage + e3_gencrate", "exploration",
         "model-based property testing (proptest) of compiled generated code: operation sequences vs a reference model of field values, debug+hooks and release builds; thorough tier adds coverage-guided fuzzing (libFuzzer, ASan) with the same oracle",
         "Two-level search: generated definitions compiled from truc's output, generated operation sequences (constructors, accessors on heap/stack/vector elements, moves, unpack, drop) compared with a model on all fields after every write.",
         BASE_NOTE + " One LLVM version observed for the release build."),
 "C05": ("e2_genstage + e3_gencrate", "exploration",
         "model-based property testing (proptest) of compiled generated code: conversion forms and chains vs model transitions; thorough tier adds coverage-guided fuzzing (libFuzzer, ASan) with the same oracle",
         "All four conversion forms, chains to the last variant and in-place vector conversions on generated definitions; carried-over, added and returned removed values compared with the model; byte-reusing conversions measured.",
         BASE_NOTE),
 "C06": ("e2_genstage + e3_gencrate", "exploration",
         "property-based testing (proptest) with a creation/destruction ledger of instrumented field types over whole-life operation sequences; thorough tier adds coverage-guided fuzzing (libFuzzer, ASan) with the same oracle",
         "Ledger of token values (live set == values owned by records, no double destruction, zero-size droppable count) checked after every operation of whole-life sequences incl. conversions, failed vector conversions, clone and serde operations.",
         BASE_NOTE + " Instrumented token types stand for user types with the same size/alignment/drop behaviour."),
 "C07": ("e2_genstage + e3_gencrate (verif-hooks)", "exploration",
         "property-based testing (proptest) with runtime instrumentation (feature verif-hooks): bounds, alignment at the actual address, per-byte ownership shadow; thorough tier adds coverage-guided fuzzing (libFuzzer, ASan) with the same oracle",
         "Every read/write/get/get_mut of generated code on generated sequences is checked by the hooks in debug and release builds, CAP = MAX_SIZE and MAX_SIZE+5, heap/stack/vector placements.",
         BASE_NOTE + " Whether a store uses alignment-requiring means is stated by the hook call next to the store; Miri is the independent oracle for that (thorough tier)."),
 "C08": ("e4_vecconv", "exploration",
         "model-based property testing (proptest) + exhaustive small-scope enumeration: reference filter_map model with previous output, converter log, buffer identity; thorough tier adds coverage-guided fuzzing (libFuzzer, ASan) with the same oracle",
         "10 element type pairs (plain, owned, zero-size, large, over-aligned, asymmetric drop glue), all masks for small lengths exhaustively and random scenarios up to length 80, debug and release.",
         BASE_NOTE),
 "C09": ("e4_vecconv", "fault_enumeration",
         "fault injection enumerated over every failure position x kind (Err, panic at 3 phases) x entry point for small lengths, random beyond; ledger + allocation watch + payload identity; thorough tier adds coverage-guided fuzzing (libFuzzer, ASan) with the same oracle",
         "Every failure position x 7 (kind, entry) combinations x all masks of preceding elements for lengths <= 8 (quick) enumerated; ledger balance, allocation release, call count and identity of the error / panic payload.",
         BASE_NOTE + " Allocation release is observed through a wrapping global allocator."),
 "C10": ("e4_vecconv", "exploration",
         "exhaustive enumeration of a type-pair matrix x small lengths + proptest for longer vectors: must-panic oracle, converter call count, ledger; thorough tier adds coverage-guided fuzzing (libFuzzer, ASan) with the same oracle",
         "72 ordered pairs of 9 element types (sizes 0..16 x alignments 1..16), lengths 0..40, both entry points.",
         BASE_NOTE),
 "C11": ("e5_probes", "exploration",
         "generated programs with the Rust compiler as oracle: perturbed type information must be rejected, paired control must compile",
         "Generated definitions with one datum's size/alignment/uninit flag perturbed through each entry point; rustc must reject; control must compile; failing histories are delta-debugged.",
         BASE_NOTE + " Trusts rustc 1.96 as the oracle."),
 "C12": ("e1_layout", "exploration",
         "model-based property testing (proptest): adversarial request sequences against a reference model of the generic and native builders; thorough tier adds coverage-guided fuzzing (libFuzzer, ASan) with the same oracle",
         "Every request's Ok/Err, observable state after every request, unchanged state after every rejection, fresh ids, no-op close, build panic with pending changes.",
         BASE_NOTE + " Error message texts are not compared."),
 "C13": ("e1_layout + e5_probes", "exploration",
         "property-based testing (proptest): no-panic oracle on generated histories; generated modules x 4 fragment selections type-checked by rustc; thorough tier adds coverage-guided fuzzing (libFuzzer, ASan) with the same oracle",
         "(a) to_string/max_size/max_type_align/generate never panic on accepted definitions; (b) every generated module over the real field-type menu compiles with every fragment selection.",
         BASE_NOTE + " Trusts rustc 1.96 as the oracle for (b)."),
 "C14": ("e5_probes", "exploration",
         "generated programs with the Rust compiler as oracle: auto-trait probe constants on generated record types vs conjunction over field types",
         "Definitions with auto-trait marker fields; Send/Sync of every RecordN and CappedRecordN<MAX_SIZE+16> compared with the conjunction over the variant's field types, both directions. The leak direction is an open known finding (K1).",
         BASE_NOTE + " Thread schedules are not explored: the property is decided at the trait level."),
 "C15": ("e2_genstage + e3_gencrate", "exploration",
         "property-based testing (proptest) of compiled generated code: serde round trips (JSON text, Value, bincode) vs model, corrupted inputs at generated positions, ledger",
         "Round trips through three formats, element order, and truncation / undecodable element / extra element at generated positions must be rejected without panic and with the ledger balanced.",
         BASE_NOTE),
 "C16": ("e2_genstage + e3_gencrate", "exploration",
         "property-based testing (proptest) of compiled generated code: clone/clone_from vs model with an injected panic at the n-th field clone (clone fuse), ledger; thorough tier adds coverage-guided fuzzing (libFuzzer, ASan) with the same oracle",
         "Clone equality and independence, clone_from, and a panic injected at every field clone position reachable by the fuse; ledger balance.",
         BASE_NOTE),
 "C17": ("e5_probes", "exploration",
         "grammar-generated types with the Rust compiler as oracle: type-equality probe of recorded names; table lookups by generated spellings",
         "Thousands of grammar-generated types: program P2 type-checks recorded == written type; program P1 looks every type up by 6 spellings.",
         BASE_NOTE + " Trusts rustc 1.96 as the oracle."),
 "C18": ("e1_layout", "exploration",
         "property-based testing (proptest): metamorphic (host types permuted under a synthetic resolver) and differential (explicit replay) relations; table round trips",
         "Synthetic resolver through all five entry points; permutation of host types; explicit replay; StaticTypeResolver answers, host agreement on 418 standard types, JSON round trips.",
         BASE_NOTE),
 "C19": ("e1_layout", "exploration",
         "property-based testing (proptest): replay-twice differential in-process and across freshly spawned processes",
         "Offsets, Display and generated bytes compared between two replays in-process and between parent and two child processes with different hash seeds.",
         BASE_NOTE),
 "C20": ("e1_layout", "exploration",
         "property-based testing (proptest): generated source definitions replayed into native/generic builders; bijection + multiset oracle; thorough tier adds coverage-guided fuzzing (libFuzzer, ASan) with the same oracle",
         "Map order/size, per-pair multisets of (name, type info, uninit), functional and injective datum correspondence; names reused across variants.",
         BASE_NOTE),
}

NOT_APPLICABLE = {}

def main():
    checks = []
    for pid in sorted(CHECKS):
        engine, level, technique, text, note = CHECKS[pid]
        checks.append({
            "property_id": pid,
            "quick_cmd": "./check %s quick" % pid,
            "thorough_cmd": "./check %s thorough" % pid,
            "evidence_file": "/verif/evidence/%s.json" % pid,
            "replay_cmd_template": "./check %s --replay {path}" % pid,
            "engine": engine,
            "level_claimed": {"category": level, "text": text, "design_ref": "DESIGN.md section 4 (%s)" % pid},
            "level_note": note,
            "technique": technique,
        })
    m = {
        "version": 1,
        "setup_cmd": "./check setup",
        "hooks": {
            "guard": "cargo feature verif-hooks of truc_runtime",
            "enable": "harness crate vdrive enables truc_runtime/verif-hooks through its feature `hooks` (path dependency on /repo/truc_runtime); build configurations A (debug) and C (release) of e3_gencrate use it",
            "baseline_off_cmd": "cd /repo && cargo test --workspace --no-fail-fast --offline",
            "source_commits": ["da335f3", "890687c", "25e96a6"],
            "add_only": True,
        },
        "engines": [
            {"name": "e1_layout", "path": "/verif/engine/e1_layout", "serves_properties": ["C01", "C02", "C03", "C12", "C13", "C18", "C19", "C20"], "kind_free_text": "in-process proptest on truc's builder / resolver / generator"},
            {"name": "e2_genstage + e3_gencrate", "path": "/verif/engine/e3_gencrate", "serves_properties": ["C02", "C03", "C04", "C05", "C06", "C07", "C15", "C16"], "kind_free_text": "generated definitions compiled from truc's output + proptest operation sequences vs reference model (vdrive), 3 build configurations"},
            {"name": "e4_vecconv", "path": "/verif/engine/e4_vecconv", "serves_properties": ["C08", "C09", "C10"], "kind_free_text": "proptest + exhaustive enumeration on the in-place vector conversion"},
            {"name": "e5_probes", "path": "/verif/engine/e5_probes", "serves_properties": ["C03", "C08", "C09", "C11", "C13", "C14", "C17"], "kind_free_text": "generated programs judged by rustc (const assertions, must-reject / must-compile pairs, auto-trait probes, type-equality probes)"},
            {"name": "fuzz (cargo-fuzz)", "path": "/verif/engine/fuzz", "serves_properties": ["C01", "C02", "C03", "C04", "C05", "C06", "C07", "C08", "C09", "C10", "C12", "C13", "C16", "C20"], "kind_free_text": "thorough tier: libFuzzer + AddressSanitizer targets layout / vecconv / gendrive over total byte decoders of the same case grammars, property oracle inside the target"},
            {"name": "miri tier", "path": "/verif/engine/e3_gencrate", "serves_properties": ["C07"], "kind_free_text": "pre-generated operation sequences replayed under cargo miri (symbolic alignment, strict provenance)"},
        ],
        "checks": checks,
        "not_applicable": [{"property_id": k, "reason": v} for k, v in sorted(NOT_APPLICABLE.items())],
        "notes": "Driver: /verif/check <ID> quick|thorough|--replay <file>. Known findings: /verif/known_findings.json. Seeded changes used to test the checks: /verif/seeded/ (5 rounds). Behaviour-preserving changes on which every check must stay silent: /verif/benign/.",
    }
    json.dump(m, open(os.path.join(ROOT, "MANIFEST.json"), "w"), indent=1)

if __name__ == "__main__":
    main()
