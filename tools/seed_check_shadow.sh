#!/bin/bash
# usage: seed_check_shadow.sh <seeded dir (under /verif/seeded)> <tier> <prop>...
# Like seed_check.sh, but in the shadow copy (see shadow_setup.sh): /repo is never touched.
d=$(realpath $1); tier=$2; shift 2
cd ${SHADOW:-/tmp/shadow}/verif || exit 2
git -C ${SHADOW:-/tmp/shadow}/repo diff --quiet || { echo "shadow repo is dirty"; exit 2; }
git -C ${SHADOW:-/tmp/shadow}/repo apply "$d/patch.diff" || { echo "patch does not apply"; exit 2; }
trap 'git -C ${SHADOW:-/tmp/shadow}/repo checkout -q -- .; git -C ${SHADOW:-/tmp/shadow}/repo clean -fdq -- truc truc_runtime' EXIT
for p in "$@"; do
  out=$(./check $p $tier 2>&1); rc=$?
  echo "== $p rc=$rc :: $(echo "$out" | grep -E "VIOLATION|INCONCLUSIVE|^OK|^  \[" | head -3 | tr '\n' ' ' | cut -c1-400)"
done
