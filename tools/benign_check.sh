#!/bin/bash
# usage: benign_check.sh <out log> [diff ...]
# Applies each behaviour-preserving change of /verif/benign in the shadow copy and runs ALL quick checks:
# every one of them must stay silent (exit 0).
out=$1; shift
diffs="$@"; [ -z "$diffs" ] && diffs=$(ls /verif/benign/*.diff)
S=${SHADOW:-/tmp/shadow}
for d in $diffs; do
  cd $S/verif
  git -C $S/repo checkout -q -- .; git -C $S/repo clean -fdq -- truc truc_runtime
  git -C $S/repo apply $d || { echo "$(basename $d): DOES NOT APPLY" >> $out; continue; }
  for p in C01 C02 C03 C04 C05 C06 C07 C08 C09 C10 C11 C12 C13 C14 C15 C16 C17 C18 C19 C20; do
    res=$(./check $p quick 2>&1 | grep -E "^OK|VIOLATION|INCONCLUSIVE|^  \[" | head -2 | tr '\n' ' ' | cut -c1-300)
    echo "$(basename $d .diff) $p :: $res" >> $out
  done
  git -C $S/repo checkout -q -- .; git -C $S/repo clean -fdq -- truc truc_runtime
done
echo DONE >> $out
