#!/bin/bash
# usage: round_adopt.sh <prefix of the scratch clones, e.g. /tmp/wt/r4_> <k> <k> -- <Cxx>...
# adopts the changes <k> of each property and runs the property's own quick check in the shadow copy
pre=$1; shift
ks=(); while [ "$1" != "--" ]; do ks+=($1); shift; done; shift
for id in "$@"; do
  for k in "${ks[@]}"; do
    [ -d /verif/seeded/$id-$k ] || /verif/tools/adopt_seed.sh $pre$id $k $id 2>&1 | tail -1
    [ -d /verif/seeded/$id-$k ] || continue
    echo "## $id-$k"
    /verif/tools/seed_check_shadow.sh /verif/seeded/$id-$k quick $id | cut -c1-500
  done
done
