#!/bin/bash
# Runs, in the shadow copy, the quick check of the property each seeded change was written for
# (and optionally more) and appends one JSON line per (change, property) to the output file.
# usage: catch_matrix.sh <out.jsonl> [change ...]   (default: all of /verif/seeded)
out=$1; shift
changes="$@"
[ -z "$changes" ] && changes=$(ls -d /verif/seeded/C*-* | xargs -n1 basename)
for c in $changes; do
  prop=${c%-*}
  res=$(/verif/tools/seed_check_shadow.sh /verif/seeded/$c quick $prop 2>&1 | tail -1)
  rc=$(echo "$res" | sed -E 's/.*rc=([0-9]+).*/\1/')
  sig=$(echo "$res" | grep -oE '\[[a-zA-Z0-9:_.-]+\]' | head -1)
  python3 - "$out" "$c" "$prop" "$rc" "$sig" <<'PY'
import json,sys
out,c,prop,rc,sig=sys.argv[1:6]
open(out,'a').write(json.dumps({"change":c,"property":prop,"rc":int(rc) if rc.isdigit() else None,"signature":sig})+"\n")
PY
done
