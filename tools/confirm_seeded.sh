#!/bin/bash
# usage: confirm_seeded.sh <scratch worktree> <k>
# Re-confirms a seeded change inside its scratch worktree: demo passes on HEAD, with the patch the
# project builds, the existing suite passes and the demo fails.
wt=$1; k=$2
cd "$wt" || exit 2
git checkout -q -- truc truc_runtime 2>/dev/null
d=seeded/$k
[ -f $d/patch.diff ] || { echo "NO PATCH $d"; exit 2; }
bash $d/run_demo.sh >/tmp/cs_demo0.log 2>&1; r0=$?
git apply --check $d/patch.diff || { echo "PATCH DOES NOT APPLY"; exit 2; }
git apply $d/patch.diff
cargo test --workspace --no-fail-fast --offline >/tmp/cs_tests.log 2>&1; rt=$?
passed=$(grep -E "^test result: ok" /tmp/cs_tests.log | sed -E 's/.*ok\. ([0-9]+) passed.*/\1/' | paste -sd+ | bc)
bash $d/run_demo.sh >/tmp/cs_demo1.log 2>&1; r1=$?
git checkout -q -- truc truc_runtime
echo "demo_on_head=$r0 tests_rc=$rt tests_passed=$passed demo_with_patch=$r1"
if [ $r0 -eq 0 ] && [ $rt -eq 0 ] && [ $r1 -ne 0 ]; then echo CONFIRMED; exit 0; else echo NOT-CONFIRMED; tail -5 /tmp/cs_demo1.log; exit 1; fi
