#!/bin/bash
# usage: seed_check.sh <seeded dir> <tier> <prop>...
# Applies a seeded change to /repo, runs the given checks, and always restores /repo.
d=$(realpath $1); tier=$2; shift 2
cd /verif
git -C /repo diff --quiet || { echo "/repo is dirty"; exit 2; }
git -C /repo apply "$d/patch.diff" || { echo "patch does not apply"; exit 2; }
trap 'git -C /repo checkout -q -- .' EXIT
for p in "$@"; do
  out=$(./check $p $tier 2>&1); rc=$?
  echo "== $p rc=$rc :: $(echo "$out" | grep -E "VIOLATION|INCONCLUSIVE|^OK|^  \[" | head -3 | tr '\n' ' ' | cut -c1-400)"
done
