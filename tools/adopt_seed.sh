#!/bin/bash
# usage: adopt_seed.sh <scratch clone> <k> <Cxx>
# Confirms the seeded change <clone>/seeded/<k> (confirm_seeded.sh) and copies it to /verif/seeded/<Cxx>-<k>
# (without build output).
wt=$1; k=$2; id=$3
/verif/tools/confirm_seeded.sh $wt $k || exit 1
dst=/verif/seeded/$id-$k
mkdir -p $dst
rsync -a --exclude target --exclude Cargo.lock $wt/seeded/$k/ $dst/
echo "adopted $dst"
