#!/bin/bash
# Creates / refreshes a shadow copy of /repo and /verif under /tmp/shadow so that seeded changes can be
# tried without touching /repo (path dependencies of the shadow engine point at the shadow repo).
set -e
mkdir -p /tmp/shadow
rsync -a --delete --exclude target /repo/ /tmp/shadow/repo/
rsync -a --delete --exclude 'engine/target*' --exclude 'engine/fuzz/target' --exclude work --exclude replays --exclude .git /verif/ /tmp/shadow/verif/
grep -rl '"/repo/' /tmp/shadow/verif/engine --include=Cargo.toml | xargs -r sed -i 's#"/repo/#"/tmp/shadow/repo/#g'
git -C /tmp/shadow/repo checkout -q -- . 
echo "shadow ready"
