#!/bin/bash
# Creates / refreshes a shadow copy of /repo and /verif under ${SHADOW:-/tmp/shadow} so that seeded changes can be
# tried without touching /repo (path dependencies of the shadow engine point at the shadow repo).
set -e
mkdir -p ${SHADOW:-/tmp/shadow}
rsync -a --delete --exclude target /repo/ ${SHADOW:-/tmp/shadow}/repo/
rsync -a --delete --exclude 'engine/target*' --exclude 'engine/fuzz/target' --exclude work --exclude replays --exclude .git /verif/ ${SHADOW:-/tmp/shadow}/verif/
grep -rl '"/repo/' ${SHADOW:-/tmp/shadow}/verif/engine --include=Cargo.toml | xargs -r sed -i "s#\"/repo/#\"${SHADOW:-/tmp/shadow}/repo/#g"
git -C ${SHADOW:-/tmp/shadow}/repo checkout -q -- . 
echo "shadow ready"
