"""Orchestration of the verification engines: build, run parts, apply known findings, write evidence."""
import hashlib
import json
import os
import subprocess
import sys
import time

ROOT = os.path.dirname(os.path.dirname(os.path.abspath(__file__)))
ENGINE = os.path.join(ROOT, "engine")
WORK = os.path.join(ROOT, "work")
EVIDENCE = os.path.join(ROOT, "evidence")
REPLAYS = os.path.join(ROOT, "replays")
KNOWN = os.path.join(ROOT, "known_findings.json")


class Inconclusive(Exception):
    pass


def env():
    e = dict(os.environ)
    e["CARGO_NET_OFFLINE"] = "true"
    e.setdefault("VERIF_SEED", "1")
    e["VERIF_WORK"] = WORK
    e["VERIF_HOOKS_ECHO"] = "1"
    e.pop("RUSTFLAGS", None)
    return e


def seed():
    try:
        return int(os.environ.get("VERIF_SEED", "1"))
    except ValueError:
        return 1


def run(cmd, cwd=None, timeout=3600, extra_env=None, quiet=True):
    e = env()
    if extra_env:
        e.update(extra_env)
    try:
        p = subprocess.run(cmd, cwd=cwd, env=e, timeout=timeout, stdout=subprocess.PIPE, stderr=subprocess.STDOUT, text=True)
    except subprocess.TimeoutExpired:
        raise Inconclusive("time-out after %ss: %s" % (timeout, " ".join(cmd)))
    return p.returncode, p.stdout


def cargo_build(package, target_dir="target", release=False, features=None, extra_env=None, profile=None):
    cmd = ["cargo", "build", "-q", "-p", package, "--target-dir", os.path.join(ENGINE, target_dir)]
    if profile:
        cmd += ["--profile", profile]
    elif release:
        cmd.append("--release")
    if features:
        cmd += ["--features", ",".join(features)]
    rc, out = run(cmd, cwd=ENGINE, timeout=3000, extra_env=extra_env)
    if rc != 0:
        raise Inconclusive("could not build %s:\n%s" % (package, out[-4000:]))
    return os.path.join(ENGINE, target_dir, profile or ("release" if release else "debug"), package)


def run_engine(cmd, result_path, what, timeout=7200, extra_env=None):
    """Runs an engine command that writes result_path. If the process dies on a signal, re-runs it
    single-threaded with a side file to name the case it died on and reports that as a failure."""
    rc, log = run(cmd, timeout=timeout, extra_env=extra_env)
    if rc == 0:
        r = json.load(open(result_path))
        os.remove(result_path)
        return r
    if rc < 0 or rc in (134, 139, 132, 136, 138):
        # the process died on a signal: run again with side files (every worker notes the case it is
        # about to execute) and replay the candidates in fresh processes
        import glob
        side = result_path + ".side"
        for f in glob.glob(side + "*"):
            os.remove(f)
        e = dict(extra_env or {})
        e.update({"VERIF_SIDEFILE": side})
        rc2, log2 = run(cmd, timeout=timeout, extra_env=e)
        candidates = sorted(glob.glob(side + "*"))
        found = None
        if rc2 != 0:
            for c in candidates:
                try:
                    case = json.load(open(c))
                except Exception:
                    continue
                rc3, log3 = run([cmd[0], "replay", cmd[2], c], timeout=600, extra_env=extra_env)
                if rc3 < 0 or rc3 in (1, 134, 139, 132, 136, 138):
                    found = (case, rc3, log3)
                    break
            if found is None and len(candidates) == 1:
                try:
                    found = (json.load(open(candidates[0])), rc2, log2)
                except Exception:
                    pass
        for f in glob.glob(side + "*"):
            os.remove(f)
        if rc2 == 0 and os.path.exists(result_path):
            os.remove(result_path)
        if found is not None:
            case, rc3, log3 = found
            return {
                "evaluations": 1, "distinct_nontrivial": 0, "nontrivial": 0, "rule": "crash localisation run",
                "samples": [case], "classes": {}, "counters": {},
                "failures": [{"signature": "crash", "case": case,
                              "message": "the process died (exit status %s) executing generated cases; this case reproduces it in a fresh process (exit status %s): %s %s"
                                         % (rc, rc3, " | ".join([l for l in (log3 or "").splitlines() if l.startswith("HOOK-VIOLATION")][:3]), (log3 or log2 or log)[-400:])}],
            }
        raise Inconclusive("%s died (rc %s) and the crash could not be attributed to a case:\n%s" % (what, rc, log[-2000:]))
    raise Inconclusive("%s failed (rc %s):\n%s" % (what, rc, log[-3000:]))


def load_known():
    try:
        return json.load(open(KNOWN))
    except FileNotFoundError:
        return []


# ---------------------------------------------------------------------------------------------
# Parts

def e1_part(prop_arg, cases, name=None, release=False):
    """release=False: arithmetic overflow in truc panics (seen as a panic); release=True: it wraps
    (seen as a wrong layout). The seed differs between the two so that they explore different cases."""
    def f(tier):
        exe = cargo_build("e1_layout", release=release)
        os.makedirs(WORK, exist_ok=True)
        out = os.path.join(WORK, "e1_%s_%s%s.json" % (prop_arg, os.getpid(), "_r" if release else ""))
        r = run_engine([exe, "run", prop_arg, str(cases[tier]), out], out, "e1_layout run " + prop_arg,
                       extra_env={"VERIF_SEED": str(seed() + 7919)} if release else None)
        r.setdefault("property", prop_arg)
        r["part"] = (name or ("e1:" + prop_arg)) + ("[optimised build]" if release else "")
        r["replay_engine"] = "e1-release" if release else "e1"
        return r
    return f


def e1_parts(prop_arg, cases):
    return [e1_part(prop_arg, cases), e1_part(prop_arg, cases, release=True)]


def e4_part(prop_arg, cases, max_len, release, abort=False):
    """abort=True: optimised build with panic = "abort" (only for runs in which no converter fails)."""
    def f(tier):
        exe = cargo_build("e4_vecconv", release=release, profile="abort" if abort else None)
        os.makedirs(WORK, exist_ok=True)
        out = os.path.join(WORK, "e4_%s_%s%s.json" % (prop_arg, os.getpid(), "_abort" if abort else ""))
        r = run_engine([exe, "run", prop_arg, str(cases[tier]), str(max_len[tier]), out], out, "e4_vecconv run " + prop_arg,
                       extra_env={"VERIF_SEED": str(seed() ^ (0xAB0 if abort else 0x52454C if release else 0))})
        r.setdefault("property", prop_arg)
        r["part"] = "e4:%s:%s" % (prop_arg, "release, panic=abort" if abort else "release" if release else "debug")
        r["replay_engine"] = "e4-abort" if abort else "e4-release" if release else "e4"
        return r
    return f


def e4_parts(prop_arg, cases, max_len):
    return [e4_part(prop_arg, cases, max_len, False), e4_part(prop_arg, cases, max_len, True)]


E3_CONFIGS = {
    # name: (target dir, release, features)
    "A": ("target_a", False, ["hooks"]),
    "B": ("target_b", True, []),
    "C": ("target_c", True, ["hooks"]),
}
# Configurations whose definitions and modules come out of a generator stage (truc itself) built WITHOUT
# debug assertions and overflow checks, as cargo builds a build script and its dependencies under --release.
E3_GEN_RELEASE = {"A": False, "B": True, "C": False}
E3_DEFS = dict(quick=64, thorough=256)


def gen_dir(tier, sd=None, gen_release=False):
    return os.path.join(WORK, "gen", "%s-%s%s" % (tier, seed() if sd is None else sd, "-r" if gen_release else ""))


FUZZ_DEFS = 24


def e3_generate(tier, exclude=(), sd=None, gen_release=False):
    exe = cargo_build("e2_genstage", release=gen_release)
    d = gen_dir(tier, sd, gen_release)
    os.makedirs(d, exist_ok=True)
    cmd = [exe, "gen", str(FUZZ_DEFS if tier == "fuzz" else E3_DEFS[tier]), d]
    if exclude:
        cmd.append(",".join(str(k) for k in sorted(exclude)))
    rc, out = run(cmd, timeout=1200, extra_env=None if sd is None else {"VERIF_SEED": str(sd)})
    if rc != 0:
        raise Inconclusive("e2_genstage failed (rc %s):\n%s" % (rc, out[-3000:]))
    return d


def e3_build(tier, config, sd=None):
    """Generates the batch of definitions and builds the driver around it. Modules that do not
    compile are excluded (and returned) so that the other definitions are still examined."""
    import re
    target, release, features = E3_CONFIGS[config]
    excluded = {}
    for _round in range(12):
        d = e3_generate(tier, excluded.keys(), sd, E3_GEN_RELEASE.get(config, False))
        try:
            exe = cargo_build("e3_gencrate", target_dir=target, release=release, features=features, extra_env={"VERIF_GEN_DIR": d})
            return exe, d, excluded
        except Inconclusive as e:
            msg = str(e)
            blocks = re.split(r"\n(?=error)", msg)
            bad_def = set(int(k) for k in re.findall(r"def_(\d+)\.rs", msg))
            bad_glue = set(int(k) for k in re.findall(r"glue_(\d+)\.rs", msg))
            new = (bad_def | bad_glue) - set(excluded)
            if not new:
                raise
            for k in new:
                mine = [b for b in blocks if re.search(r"(def|glue)_%d\.rs" % k, b)]
                excluded[k] = ("def" if k in bad_def else "glue", (mine[0] if mine else msg)[:1500])
    return None, d, excluded


def e3_part(prop_arg, config, cases):
    def f(tier):
        import re
        exe, d, excluded = e3_build(tier, config)
        os.makedirs(WORK, exist_ok=True)
        out = os.path.join(WORK, "e3_%s_%s_%s.json" % (prop_arg, config, os.getpid()))
        salt = {"A": 0, "B": 0xB0B, "C": 0xC0C}[config]
        if exe is None or len(excluded) > E3_DEFS[tier] // 2:
            # too many generated modules (or their adapters) do not compile to run anything
            r = {"evaluations": len(excluded), "nontrivial": 0, "distinct_nontrivial": 0, "samples": [], "classes": {}, "counters": {}, "failures": [],
                 "rule": "no sequence was run: %d of %d generated modules or their adapters do not compile" % (len(excluded), E3_DEFS[tier])}
        else:
            r = run_engine([exe, "run", prop_arg, str(cases[tier]), out], out, "e3_gencrate(%s) run %s" % (config, prop_arg),
                           extra_env={"VERIF_SEED": str(seed() ^ salt)})
        r.setdefault("property", prop_arg)
        r["part"] = "e3:%s:%s" % (prop_arg, {"A": "debug+hooks", "B": "release (generator stage built in release too)", "C": "release+hooks"}[config])
        r["replay_engine"] = "e3-" + config
        r["replay_extra"] = {"gen_seed": seed(), "run_seed": seed() ^ salt, "tier_defs": E3_DEFS[tier], "config": config}
        if excluded:
            r.setdefault("notes", []).append("generated modules excluded because they do not compile: %s" % sorted(excluded))
            # The glue is generated from the definition (names, types, ids) and compiles for the same
            # histories on a tree where the generated interface matches the definition.  When the
            # generated module compiles alone but the glue does not, the generated interface lacks or
            # mistypes something the definition has: attributed by what the compiler names.
            for k, (kind, text) in sorted(excluded.items()):
                if kind != "glue":
                    continue
                if re.search(r"UnpackedRecordIn|UnpackedUninitRecordIn|AndUnpackedOut|conv_\d", text):
                    owner = "C05"
                elif re.search(r"[Cc]lone", text):
                    owner = "C16"
                elif re.search(r"serde|Serialize|Deserialize|bincode", text):
                    owner = "C15"
                else:
                    owner = "C04"
                if owner == prop_arg:
                    hist = None
                    try:
                        hist = json.load(open(os.path.join(d, "hist_%d.json" % k)))
                    except Exception:
                        pass
                    if len([x for x in r.get("failures", []) if x.get("signature") == "generated-interface-mismatch"]) >= 2:
                        continue
                    r.setdefault("failures", []).append({
                        "signature": "generated-interface-mismatch",
                        "message": "definition #%d: truc's generated module compiles, but the adapter written from the definition (names, types, added / removed data per variant) does not fit its interface: %s" % (k, text[:700]),
                        "case": {"definition_history": hist, "definition_index": k},
                    })
        if (exe is None or len(excluded) > E3_DEFS[tier] // 2) and not r.get("failures"):
            raise Inconclusive("%d of %d generated modules or adapters do not compile and none of the errors concerns %s: %s"
                               % (len(excluded), E3_DEFS[tier], prop_arg, sorted(excluded)))
        return r
    return f



def e3_single_build(history, config, tag):
    """Builds the driver around ONE definition given by its history (self-contained replays)."""
    import re
    gen = cargo_build("e2_genstage", release=E3_GEN_RELEASE.get(config, False))
    d = os.path.join(WORK, "gen", "single-%s" % tag)
    os.makedirs(d, exist_ok=True)
    hist_file = os.path.join(d, "history_in.json")
    json.dump({"history": history}, open(hist_file, "w"))
    rc, out = run([gen, "single", hist_file, d], timeout=600)
    if rc != 0:
        return None, d, "e2_genstage single failed: %s" % out[-500:]
    target, release, features = E3_CONFIGS[config]
    try:
        exe = cargo_build("e3_gencrate", target_dir=target + "_r", release=release, features=features, extra_env={"VERIF_GEN_DIR": d})
    except Inconclusive as e:
        return None, d, str(e)
    return exe, d, None


def e3_replay_single(prop_arg, history, case, config, tag):
    """Returns (rc, output) of replaying `case` (definition selector forced to 0) on the single definition."""
    exe, d, err = e3_single_build(history, config, tag)
    if exe is None:
        return 2, err
    c = dict(case)
    c["def"] = 0
    path = os.path.join(d, "case.json")
    json.dump({"case": c}, open(path, "w"))
    return run([exe, "replay", prop_arg, path], timeout=600)


def e3_minimize(prop_arg, history, case, config, budget=14):
    """Delta-debugging of the definition: drops one request of its history at a time while the case still
    fails (each attempt regenerates and recompiles one module)."""
    def fails(h):
        rc, out = e3_replay_single(prop_arg, h, case, config, "min")
        return rc == 1 or rc < 0 or rc in (134, 139)
    if not fails(history):
        return None
    cur = json.loads(json.dumps(history))
    spent = 0
    i = 0
    while i < len(cur.get("reqs", [])) and spent < budget:
        cand = json.loads(json.dumps(cur))
        del cand["reqs"][i]
        spent += 1
        if fails(cand):
            cur = cand
        else:
            i += 1
    return cur

# leaks are not what this tier looks for (the ledger does, natively); one field type of the menu leaks on purpose
MIRIFLAGS = "-Zmiri-symbolic-alignment-check -Zmiri-strict-provenance -Zmiri-disable-isolation -Zmiri-ignore-leaks"
MIRI_DEFS = 12


def e3_miri_part(prop_arg, cases):
    """A subset of generated sequences replayed under Miri (sanitizer-style oracle on generated cases)."""
    def f(tier):
        gen = cargo_build("e2_genstage")
        d = os.path.join(WORK, "gen", "miri-%s" % seed())
        os.makedirs(d, exist_ok=True)
        rc, out = run([gen, "gen", str(MIRI_DEFS), d], timeout=600, extra_env={"VERIF_SEED": str(seed() ^ 0x3141), "VERIF_GEN_LIGHT": "1"})
        if rc != 0:
            raise Inconclusive("e2_genstage failed:\n%s" % out[-2000:])
        cases_file = os.path.join(WORK, "miri_cases_%s_%s.json" % (prop_arg, os.getpid()))
        rc, out = run([gen, "cases", prop_arg, str(cases[tier]), cases_file], timeout=600)
        if rc != 0:
            raise Inconclusive("e2_genstage cases failed:\n%s" % out[-2000:])
        result = os.path.join(WORK, "miri_%s_%s.json" % (prop_arg, os.getpid()))
        side = result + ".side"
        import glob
        for fpath in glob.glob(side + "*"):
            os.remove(fpath)
        env_extra = {"VERIF_GEN_DIR": d, "VERIF_THREADS": "1", "VERIF_MIRI": "1", "MIRIFLAGS": MIRIFLAGS, "VERIF_SIDEFILE": side}
        cmd = ["cargo", "+nightly", "miri", "run", "-q", "-p", "e3_gencrate", "--features", "hooks", "--target-dir",
               os.path.join(ENGINE, "target_m"), "--", "replay-list", prop_arg, cases_file, result]
        rc, log = run(cmd, cwd=ENGINE, timeout=7200, extra_env=env_extra)
        part = "e3:%s:miri" % prop_arg
        rule = ("Miri tier: %d pre-generated operation sequences on %d generated definitions replayed under cargo miri "
                "(Stacked Borrows, symbolic alignment check, strict provenance) with the hooks on; may-be-uninitialised plain "
                "fields are written right after creation (generated Drop reads them as integers)") % (cases[tier], MIRI_DEFS)
        if rc == 0 and os.path.exists(result):
            r = json.load(open(result))
            os.remove(result)
            os.remove(cases_file)
            for fpath in glob.glob(side + "*"):
                os.remove(fpath)
            r["part"] = part
            r["rule"] = rule
            r["replay_engine"] = "e3-miri"
            r["replay_extra"] = {"gen_seed": seed() ^ 0x3141, "config": "miri"}
            r.setdefault("property", prop_arg)
            return r
        ub = [l for l in log.splitlines() if "Undefined Behavior" in l or l.startswith("error")]
        case = None
        for fpath in sorted(glob.glob(side + "*")):
            try:
                case = json.load(open(fpath))
            except Exception:
                pass
            os.remove(fpath)
        if os.path.exists(cases_file):
            os.remove(cases_file)
        where = [l.strip() for l in log.splitlines() if l.strip().startswith("-->")][:1]
        in_scope = bool(where) and ("/repo/" in where[0] or "/def_" in where[0])
        if ub and "Undefined Behavior" in "\n".join(ub) and not in_scope:
            # reported inside a third-party crate or the harness (e.g. SIMD loads that the symbolic
            # alignment check mis-reports): not evidence about truc
            raise Inconclusive("Miri reported undefined behaviour outside truc and its generated code (%s): %s" % (where[0] if where else "?", ub[0][:300]))
        if ub and "Undefined Behavior" in "\n".join(ub) and case is not None:
            return {"part": part, "property": prop_arg, "replay_engine": "e3-miri", "replay_extra": {"gen_seed": seed() ^ 0x3141, "config": "miri"},
                    "evaluations": 1, "nontrivial": 0, "distinct_nontrivial": 0, "rule": rule, "samples": [case], "classes": {}, "counters": {},
                    "failures": [{"signature": "miri:undefined-behavior", "case": case,
                                  "message": "Miri: %s %s" % (ub[0][:300], where[0] if where else "")}]}
        raise Inconclusive("Miri run failed (rc %s):\n%s" % (rc, log[-3000:]))
    return f


def e3_parts(prop_arg, configs, cases):
    return [e3_part(prop_arg, c, cases) for c in configs]


def fuzz_part(target, prop_arg, runs, max_len=256):
    """Thorough tier only: coverage-guided libFuzzer campaign (cargo-fuzz, ASan) with the property's
    oracle inside the target. The saved failing input is the reproducible unit."""
    def f(tier):
        import random, re, shutil
        if runs.get(tier, 0) <= 0:
            return None
        fdir = os.path.join(ENGINE, "fuzz")
        build_env = {}
        if target == "gendrive":
            build_env = {"VERIF_GEN_DIR": e3_generate("fuzz")}
        rc, out = run(["cargo", "+nightly", "fuzz", "build", target], cwd=fdir, timeout=3000, extra_env=build_env)
        if rc != 0:
            raise Inconclusive("cargo fuzz build failed:\n%s" % out[-3000:])
        base = os.path.join(WORK, "fz", "%s-%s-%s" % (target, prop_arg, os.getpid()))
        shutil.rmtree(base, ignore_errors=True)
        corpus = os.path.join(base, "corpus")
        art = os.path.join(base, "art")
        os.makedirs(corpus)
        os.makedirs(art)
        rng = random.Random(seed() * 7919 + 13)
        for i in range(32):
            with open(os.path.join(corpus, "seed%02d" % i), "wb") as fh:
                fh.write(bytes(rng.randrange(256) for _ in range(rng.randrange(8, max_len))))
        cmd = ["cargo", "+nightly", "fuzz", "run", target, corpus, "--", "-runs=%d" % runs[tier], "-seed=%d" % (seed() % 2**31 or 1),
               "-max_len=%d" % max_len, "-len_control=0", "-print_final_stats=1", "-artifact_prefix=" + art + "/",
               # leaks are the ledger's business (natively); one field type of the menu leaks on purpose
               "-detect_leaks=0"]
        run_env = {"VERIF_FUZZ_PROP": prop_arg, "ASAN_OPTIONS": "detect_leaks=0"}
        run_env.update(build_env)
        rc, log = run(cmd, cwd=fdir, timeout=6 * 3600, extra_env=run_env)
        stats = dict(re.findall(r"stat::(\w+):\s+(\d+)", log))
        cov = re.findall(r"cov: (\d+) ft: (\d+) corp: (\d+)", log)
        r = {
            "part": "fuzz:%s:%s" % (target, prop_arg), "property": prop_arg,
            "replay_engine": {"layout": "e1", "vecconv": "e4"}.get(target, "e3-A"),
            "replay_extra": {"gen_seed": seed(), "tier_defs": FUZZ_DEFS, "config": "A"} if target == "gendrive" else None,
            "evaluations": int(stats.get("number_of_executed_units", 0)),
            "nontrivial": 0, "distinct_nontrivial": 0, "distinct_nontrivial_random": 0,
            "rule": ("libFuzzer (cargo-fuzz, AddressSanitizer) over a total byte decoder of the same case grammar, oracle of %s inside the target, "
                     "-seed=%d -runs=%d -max_len=%d -len_control=0, corpus = 32 random byte strings; non-trivial cases are not counted inside the target (reported as 0)"
                     % (prop_arg, seed(), runs[tier], max_len)),
            "samples": [], "classes": {},
            "counters": {"fuzz_runs": int(stats.get("number_of_executed_units", 0)), "fuzz_new_units": int(stats.get("new_units_added", 0)),
                         "fuzz_cov": int(cov[-1][0]) if cov else 0, "fuzz_features": int(cov[-1][1]) if cov else 0, "fuzz_corpus": int(cov[-1][2]) if cov else 0},
            "failures": [],
        }
        if rc != 0:
            m = re.search(r"FUZZ-FAILURE (\{.*\})", log)
            if m:
                fj = json.loads(m.group(1))
                r["failures"].append({"signature": fj.get("signature"), "message": fj.get("message"), "case": fj.get("case"),
                                      "definition_index": fj.get("definition_index"), "definition_history": fj.get("definition_history")})
            elif "ERROR: AddressSanitizer" in log or "ERROR: libFuzzer: deadly signal" in log:
                line = [l for l in log.splitlines() if "ERROR:" in l][:1]
                arts = sorted(os.listdir(art))
                kept = None
                if arts:
                    os.makedirs(REPLAYS, exist_ok=True)
                    kept = os.path.join(REPLAYS, "%s-fuzz-%s" % (prop_arg, arts[0]))
                    shutil.copy(os.path.join(art, arts[0]), kept)
                r["failures"].append({"signature": "sanitizer", "message": "%s (input saved as %s; replay: cd engine/fuzz && VERIF_FUZZ_PROP=%s cargo +nightly fuzz run %s <file>)"
                                      % (line[0] if line else "crash", kept, prop_arg, target), "case": {"fuzz_artifact": kept, "target": target}})
            else:
                shutil.rmtree(base, ignore_errors=True)
                raise Inconclusive("fuzz run failed (rc %s):\n%s" % (rc, log[-2000:]))
        shutil.rmtree(base, ignore_errors=True)
        return r
    return f


def e5_part(prop_arg, n, release=False):
    """release=True: truc (inside the probe driver) is built without debug assertions and overflow checks, as a
    build script is under `cargo build --release`; other seed, so other cases."""
    def f(tier):
        exe = cargo_build("e5_probes", release=release)
        os.makedirs(WORK, exist_ok=True)
        out = os.path.join(WORK, "e5_%s_%s%s.json" % (prop_arg, os.getpid(), "_r" if release else ""))
        extra = {"VERIF_ENGINE_DIR": ENGINE}
        if release:
            extra["VERIF_SEED"] = str(seed() + 7919)
        rc, log = run([exe, "run", prop_arg, str(n[tier]), out], timeout=7200, extra_env=extra)
        if rc != 0:
            raise Inconclusive("e5_probes run %s failed (rc %s):\n%s" % (prop_arg, rc, log[-3000:]))
        r = json.load(open(out))
        os.remove(out)
        r["part"] = "e5:" + prop_arg + ("[generator built in release]" if release else "")
        r["replay_engine"] = "e5-release" if release else "e5"
        return r
    return f


PROPERTIES = {
    "C01": dict(level="exploration", parts=e1_parts("C01", dict(quick=400000, thorough=4000000)) + [fuzz_part("layout", "C01", dict(quick=0, thorough=250000), 256)]),
    "C02": dict(level="exploration", parts=e1_parts("C02", dict(quick=400000, thorough=3000000)) + e3_parts("C02", "B", dict(quick=20000, thorough=200000)) + [fuzz_part("layout", "C02", dict(quick=0, thorough=250000), 256)]),
    "C03": dict(level="exploration", parts=e1_parts("C03", dict(quick=400000, thorough=4000000)) + e3_parts("C03", "B", dict(quick=100000, thorough=1500000)) + [e5_part("C03", dict(quick=400, thorough=6000))] + [fuzz_part("layout", "C03", dict(quick=0, thorough=250000), 256)]),
    "C04": dict(level="exploration", parts=e3_parts("C04", "AB", dict(quick=150000, thorough=2500000)) + [fuzz_part("gendrive", "C04", dict(quick=0, thorough=150000), 160)]),
    "C05": dict(level="exploration", parts=e3_parts("C05", "AB", dict(quick=150000, thorough=2500000)) + [fuzz_part("gendrive", "C05", dict(quick=0, thorough=150000), 160)]),
    "C06": dict(level="exploration", parts=e3_parts("C06", "AB", dict(quick=150000, thorough=2500000)) + [fuzz_part("gendrive", "C06", dict(quick=0, thorough=200000), 160)]),
    "C07": dict(level="exploration", parts=e3_parts("C07", "AC", dict(quick=150000, thorough=2500000)) + [e3_miri_part("C07", dict(quick=30, thorough=400))] + [fuzz_part("gendrive", "C07", dict(quick=0, thorough=300000), 160)]),
    "C15": dict(level="exploration", parts=e3_parts("C15", "AB", dict(quick=150000, thorough=2500000))),
    "C16": dict(level="exploration", parts=e3_parts("C16", "AB", dict(quick=150000, thorough=2500000)) + [fuzz_part("gendrive", "C16", dict(quick=0, thorough=150000), 160)]),
    "C08": dict(level="exploration", parts=e4_parts("C08", dict(quick=150000, thorough=2000000), dict(quick=8, thorough=12))
                + [e4_part("C08", dict(quick=100000, thorough=1000000), dict(quick=7, thorough=10), True, abort=True)] + [e5_part("C08", dict(quick=120, thorough=1500))] + [fuzz_part("vecconv", "C08", dict(quick=0, thorough=600000), 128)]),
    "C09": dict(level="fault_enumeration", parts=e4_parts("C09", dict(quick=150000, thorough=2000000), dict(quick=8, thorough=11)) + [e5_part("C09", dict(quick=100, thorough=1000))] + [fuzz_part("vecconv", "C09", dict(quick=0, thorough=600000), 128)]),
    "C10": dict(level="exploration", parts=e4_parts("C10", dict(quick=100000, thorough=800000), dict(quick=12, thorough=40)) + [fuzz_part("vecconv", "C10", dict(quick=0, thorough=600000), 128)]),
    "C12": dict(level="exploration", parts=e1_parts("C12", dict(quick=400000, thorough=1500000)) + [fuzz_part("layout", "C12", dict(quick=0, thorough=250000), 256)]),
    "C11": dict(level="exploration", parts=[e5_part("C11", dict(quick=1500, thorough=10000)), e5_part("C11", dict(quick=500, thorough=3000), release=True)]),
    "C13": dict(level="exploration", parts=e1_parts("C13", dict(quick=60000, thorough=800000)) + [e5_part("C13", dict(quick=120, thorough=1500)), e5_part("C13", dict(quick=60, thorough=500), release=True)] + [fuzz_part("layout", "C13", dict(quick=0, thorough=20000), 256)]),
    "C14": dict(level="exploration", parts=[e5_part("C14", dict(quick=250, thorough=2000))]),
    "C17": dict(level="exploration", parts=[e5_part("C17", dict(quick=1500, thorough=20000))]),
    "C18": dict(level="exploration", parts=e1_parts("C18", dict(quick=80000, thorough=800000))),
    "C19": dict(level="exploration", parts=[
        e1_part("C19", dict(quick=12000, thorough=150000)),
        e1_part("C19", dict(quick=12000, thorough=150000), release=True),
        e1_part("C19x", dict(quick=600, thorough=8000)),
    ]),
    "C20": dict(level="exploration", parts=e1_parts("C20", dict(quick=200000, thorough=2000000)) + [fuzz_part("layout", "C20", dict(quick=0, thorough=250000), 256)]),
}


ASSUMPTIONS = {
    "default": [
        "generated cases only: the verdict is 'held on the cases explored', not absence of violations",
        "the harness is rebuilt from /repo's working tree through cargo path dependencies",
    ],
}


# ---------------------------------------------------------------------------------------------

def setup():
    try:
        cargo_build("e1_layout")
        cargo_build("e1_layout", release=True)
        cargo_build("e4_vecconv")
        cargo_build("e4_vecconv", release=True)
        cargo_build("e4_vecconv", release=True, profile="abort")
        for c in "ABC":
            e3_build("quick", c)
        cargo_build("e5_probes")
        cargo_build("e5_probes", release=True)
        cargo_build("probe_deps", target_dir="target_p")
        os.environ.setdefault("VERIF_SEED", "1")
        e3_miri_part("C07", dict(quick=1))("quick")
    except Inconclusive as e:
        print("setup failed:", e)
        return 2
    return 0


def replay(prop, path):
    data = json.load(open(path))
    engine = data.get("engine", "e1")
    try:
        if engine in ("e1", "e1-release"):
            exe = cargo_build("e1_layout", release=(engine == "e1-release"))
            rc, out = run([exe, "replay", data.get("replay_property", prop), path], timeout=600)
            print(out, end="")
            if rc == 1:
                print("VIOLATION property=%s replay=%s" % (prop, path))
            return rc
        if engine in ("e4", "e4-release", "e4-abort"):
            exe = cargo_build("e4_vecconv", release=(engine == "e4-release"), profile="abort" if engine == "e4-abort" else None)
            rc, out = run([exe, "replay", data.get("replay_property", prop), path], timeout=600)
            print(out, end="")
            if rc == 1:
                print("VIOLATION property=%s replay=%s" % (prop, path))
            return rc
        if engine in ("e5", "e5-release"):
            exe = cargo_build("e5_probes", release=(engine == "e5-release"))
            rc, out = run([exe, "replay", data.get("replay_property", prop), path], timeout=1200, extra_env={"VERIF_ENGINE_DIR": ENGINE})
            print(out, end="")
            if rc == 1:
                print("VIOLATION property=%s replay=%s" % (prop, path))
            return rc
        if engine == "e3-miri":
            extra = data.get("replay_extra", {})
            gen = cargo_build("e2_genstage")
            d = os.path.join(WORK, "gen", "miri-replay")
            os.makedirs(d, exist_ok=True)
            run([gen, "gen", str(MIRI_DEFS), d], timeout=600, extra_env={"VERIF_SEED": str(extra.get("gen_seed", 1)), "VERIF_GEN_LIGHT": "1"})
            lst = os.path.join(WORK, "miri_replay_cases.json")
            json.dump([data["case"]], open(lst, "w"))
            res = os.path.join(WORK, "miri_replay_result.json")
            rc, log = run(["cargo", "+nightly", "miri", "run", "-q", "-p", "e3_gencrate", "--features", "hooks", "--target-dir", os.path.join(ENGINE, "target_m"),
                           "--", "replay-list", data.get("replay_property", prop), lst, res], cwd=ENGINE, timeout=3600,
                          extra_env={"VERIF_GEN_DIR": d, "VERIF_THREADS": "1", "VERIF_MIRI": "1", "MIRIFLAGS": MIRIFLAGS})
            if "Undefined Behavior" in log:
                print("\n".join(log.splitlines()[:12]))
                print("VIOLATION property=%s replay=%s" % (prop, path))
                return 1
            if rc == 0:
                r = json.load(open(res))
                if r.get("failures"):
                    print(r["failures"][0]["message"])
                    print("VIOLATION property=%s replay=%s" % (prop, path))
                    return 1
                print("replay: property %s holds on this case under Miri" % prop)
                return 0
            print("INCONCLUSIVE: Miri replay failed:\n" + log[-2000:])
            return 2
        if engine.startswith("e3-"):
            extra = data.get("replay_extra", {})
            tier = "thorough" if extra.get("tier_defs") == E3_DEFS["thorough"] else ("fuzz" if extra.get("tier_defs") == FUZZ_DEFS else "quick")
            if data.get("definition_history") and data.get("signature") not in ("generated-interface-mismatch",) and isinstance(data.get("case"), dict) and "ops" in data["case"]:
                hist = data.get("minimized_definition_history") or data["definition_history"]
                rc, out = e3_replay_single(data.get("replay_property", prop), hist, data["case"], engine[3:], "replay")
                print(out, end="")
                if rc == 1 or rc < 0 or rc in (134, 139):
                    print("VIOLATION property=%s replay=%s" % (prop, path))
                    return 1
                if rc == 0 and not data.get("minimized_definition_history"):
                    return 0
                # fall through to the batch replay when the reduced definition does not reproduce
            exe, d, excluded = e3_build(tier, engine[3:], sd=extra.get("gen_seed", data.get("seed", 1)))
            if data.get("signature") == "generated-interface-mismatch":
                k = (data.get("case") or {}).get("definition_index")
                if k in excluded and excluded[k][0] == "glue":
                    print("definition #%s: the adapter written from the definition does not fit the generated interface:\n%s" % (k, excluded[k][1][:800]))
                    print("VIOLATION property=%s replay=%s" % (prop, path))
                    return 1
                print("replay: the adapter of definition #%s compiles against the generated module" % k)
                return 0
            if exe is None:
                print("INCONCLUSIVE: the generated batch does not compile")
                return 2
            rc, out = run([exe, "replay", data.get("replay_property", prop), path], timeout=600)
            print(out, end="")
            if rc == 1:
                print("VIOLATION property=%s replay=%s" % (prop, path))
            return rc
        print("unknown engine in replay file:", engine)
        return 2
    except Inconclusive as e:
        print("INCONCLUSIVE:", e)
        return 2


def match_known(prop, failure, known):
    for k in known:
        if k.get("property") != prop or k.get("status") != "open":
            continue
        sig = k.get("signature", "")
        if sig and (failure.get("signature") == sig or failure.get("signature", "").startswith(sig)):
            return k
    return None


def run_check(prop, tier):
    t0 = time.time()
    spec = PROPERTIES[prop]
    known = load_known()
    results = []
    part_errors = []
    for part in spec["parts"]:
        try:
            res = part(tier)
            if res is not None:
                results.append(res)
        except Inconclusive as e:
            part_errors.append(str(e))
    if not results:
        print("INCONCLUSIVE property=%s: %s" % (prop, part_errors[0] if part_errors else "no part ran"))
        return 2

    os.makedirs(REPLAYS, exist_ok=True)
    violations = []
    known_hits = {}
    inconclusive = []
    for r in results:
        for f in r.get("failures", []):
            if f.get("signature") in ("harness-abort", "harness-io"):
                inconclusive.append(f)
                continue
            k = match_known(prop, f, known)
            if k is not None:
                known_hits.setdefault(k.get("id", k.get("signature")), (k, f))
                continue
            body = dict(property=prop, engine=r.get("replay_engine"), part=r.get("part"), replay_extra=r.get("replay_extra"),
                        definition_index=f.get("definition_index"), definition_history=f.get("definition_history"),
                        replay_property=r.get("property", prop),
                        signature=f.get("signature"), message=f.get("message"), case=f.get("case"),
                        seed=seed(), tier=tier)
            if (r.get("replay_engine") or "").startswith("e3-") and f.get("definition_history") and isinstance(f.get("case"), dict) and "ops" in f["case"] \
                    and r.get("replay_engine") != "e3-miri" and len(violations) < 1:
                try:
                    m = e3_minimize(r.get("property", prop), f["definition_history"], f["case"], r["replay_engine"][3:4])
                    if m is not None:
                        body["minimized_definition_history"] = m
                        body["note"] = "definition reduced by delta debugging from %d to %d requests; the case runs on it with definition selector 0" % (
                            len(f["definition_history"].get("reqs", [])), len(m.get("reqs", [])))
                except Inconclusive:
                    pass
            h = hashlib.sha1(json.dumps(body["case"], sort_keys=True).encode()).hexdigest()[:12]
            path = os.path.join(REPLAYS, "%s-%s.json" % (prop, h))
            with open(path, "w") as fh:
                json.dump(body, fh, indent=1)
            violations.append((path, f))

    # evidence
    evaluations = sum(r.get("evaluations", 0) for r in results)
    # cases enumerated identically by several parts (same exhaustive sub-space in two build
    # configurations) are counted once; randomly generated cases use a different seed per part
    distinct = sum(r.get("distinct_nontrivial_random", r.get("distinct_nontrivial", 0)) for r in results)
    distinct += max([r.get("distinct_nontrivial_enum", 0) for r in results] or [0])
    samples = []
    for r in results:
        for s in r.get("samples", [])[:3]:
            samples.append({"part": r.get("part"), "case": s})
    coverage = {
        "evaluations": evaluations,
        "distinct_nontrivial": distinct,
        "rule": " || ".join("[%s] %s" % (r.get("part"), r.get("rule", "")) for r in results),
        "samples": samples,
        "parts": [
            {k: r.get(k) for k in ("part", "evaluations", "nontrivial", "distinct_nontrivial", "classes", "counters", "notes", "exhaustive_subspaces") if r.get(k) is not None}
            for r in results
        ],
        "known_findings_reported": sorted(known_hits.keys()),
        "violation_replays": [v[0] for v in violations],
    }
    if all(r.get("exhaustive") for r in results) and results:
        coverage["exhaustive"] = True
    ev = {
        "property_id": prop,
        "tier": tier,
        "seed": seed(),
        "level": spec["level"],
        "coverage": coverage,
        "assumptions": spec.get("assumptions", ASSUMPTIONS["default"]),
        "wall_s": round(time.time() - t0, 2),
        "violations": len(violations),
    }
    os.makedirs(EVIDENCE, exist_ok=True)
    with open(os.path.join(EVIDENCE, prop + ".json"), "w") as fh:
        json.dump(ev, fh, indent=1)

    for kid, (k, f) in sorted(known_hits.items()):
        print("KNOWN-FINDING: property=%s %s [%s] observed: %s" % (prop, k.get("what", ""), kid, (f.get("message") or "")[:300].replace("\n", " ")))
    for path, f in violations:
        print("  [%s] %s" % (f.get("signature"), (f.get("message") or "")[:1500]))
        print("VIOLATION property=%s replay=%s" % (prop, path))
    if violations:
        return 1
    if part_errors:
        print("INCONCLUSIVE property=%s: %s" % (prop, part_errors[0]))
        return 2
    if inconclusive:
        print("INCONCLUSIVE property=%s: %s" % (prop, inconclusive[0].get("message")))
        return 2
    print("OK property=%s tier=%s seed=%s evaluations=%d distinct_nontrivial=%d wall=%.1fs" % (prop, tier, seed(), evaluations, distinct, time.time() - t0))
    return 0
