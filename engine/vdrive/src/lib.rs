//! Interpreter of record operation sequences against a reference model, over the dynamic glue
//! interface that `e2_genstage` generates for every record definition.

pub mod ctx;
pub mod glue;
pub mod interp;
pub mod ops;

pub use glue::*;
pub use interp::*;
pub use ops::*;
