//! The interpreter: applies an operation sequence to real generated records and to a reference
//! model, compares after every step.

use std::{
    collections::{BTreeMap, BTreeSet},
    panic::{catch_unwind, AssertUnwindSafe},
};

use vcore::{pick, CaseInfo, Failure};
use vtypes::{with_menu_type, FieldType, MENU, POISON};

use crate::{
    ctx::{self, Outs},
    glue::*,
    ops::*,
};

#[derive(Debug, Clone)]
pub struct Finding {
    pub prop: &'static str,
    pub sig: String,
    pub msg: String,
}

fn expect_of(menu: usize, seed: u64) -> u64 {
    with_menu_type!(menu, T => <T as FieldType>::expect(seed))
}

/// Model of one record: variant and, per datum id, `None` (uninitialised) or the value's digest.
#[derive(Clone, Debug)]
struct MRec {
    variant: usize,
    slots: BTreeMap<usize, Option<u64>>,
}

#[derive(Default, Debug)]
pub struct Flags {
    pub write_then_read_other: bool,
    pub conversions: u32,
    pub conversions_reusing_bytes: u32,
    pub conversion_removed_droppable: bool,
    pub ended_by_drop: bool,
    pub ended_by_unpack: bool,
    pub group_access: bool,
    pub group_convert: bool,
    pub group_convert_failed: bool,
    pub serde_roundtrips: u32,
    pub serde_bad_inputs: u32,
    pub serde_bad_pos_gt0_with_token: bool,
    pub clones: u32,
    pub clone_fuse_fired_late: bool,
    pub clone_fuse_fired: u32,
    pub skipped_ops: u32,
    pub executed_ops: u32,
    pub stack_accesses: u32,
    pub uninit_news: u32,
    pub chains: u32,
}

struct State<'a> {
    def: &'a dyn DefGlue,
    info: &'a DefInfo,
    singles: Vec<(Box<dyn RecGlue>, MRec)>,
    groups: Vec<(Box<dyn VecGlue>, Vec<MRec>)>,
    findings: Vec<Finding>,
    flags: Flags,
    last_write: Option<(usize, usize)>,
    step: usize,
}

fn ranges_intersect(a: &FieldInfo, b: &FieldInfo) -> bool {
    a.size > 0 && b.size > 0 && a.offset < b.offset + b.size && b.offset < a.offset + a.size
}

fn miri_mode() -> bool {
    static M: std::sync::OnceLock<bool> = std::sync::OnceLock::new();
    *M.get_or_init(|| std::env::var("VERIF_MIRI").map_or(false, |v| v == "1"))
}

impl<'a> State<'a> {
    /// Miri mode: generated Drop / unpack / clone read may-be-uninitialised plain fields as
    /// integers, which Miri reports although no listed property forbids it; so every such field
    /// is written right after the record is created or converted.
    fn fill_unset(&mut self) {
        if !miri_mode() {
            return;
        }
        for i in 0..self.singles.len() {
            let unset: Vec<usize> = self.singles[i].1.slots.iter().filter(|(_, s)| s.is_none()).map(|(d, _)| *d).collect();
            for d in unset {
                let f = self.field(self.singles[i].1.variant, d);
                let seed = ctx::fresh_seed();
                self.singles[i].0.set(d, seed);
                self.singles[i].1.slots.insert(d, Some(expect_of(f.menu, seed)));
            }
        }
        for g in 0..self.groups.len() {
            for e in 0..self.groups[g].1.len() {
                let unset: Vec<usize> = self.groups[g].1[e].slots.iter().filter(|(_, s)| s.is_none()).map(|(d, _)| *d).collect();
                for d in unset {
                    let f = self.field(self.groups[g].1[e].variant, d);
                    let seed = ctx::fresh_seed();
                    self.groups[g].0.at(e).set(d, seed);
                    self.groups[g].1[e].slots.insert(d, Some(expect_of(f.menu, seed)));
                }
            }
        }
    }

    fn find(&mut self, prop: &'static str, sig: &str, msg: String) {
        if self.findings.len() < 8 {
            self.findings.push(Finding { prop, sig: sig.to_string(), msg: format!("step {}: {}", self.step, msg) });
        }
    }

    fn fields(&self, variant: usize) -> &'a [FieldInfo] {
        &self.info.variants[variant].fields
    }

    fn field(&self, variant: usize, datum: usize) -> &'a FieldInfo {
        self.info.variants[variant].fields.iter().find(|f| f.id == datum).expect("field of variant")
    }

    fn verify(&mut self, prop: &'static str, what: &str, r: &dyn RecGlue, m: &MRec) {
        if r.variant() != m.variant {
            self.find(prop, "wrong-variant", format!("{}: record reports variant {}, model {}", what, r.variant(), m.variant));
            return;
        }
        for (&d, slot) in &m.slots {
            if let Some(expected) = slot {
                let got = r.get(d);
                if got != *expected {
                    let f = self.field(m.variant, d);
                    self.find(
                        prop,
                        "value-mismatch",
                        format!(
                            "{}: field {} (datum {}, {} at offset {}) of variant {} reads digest {:#x}, expected {:#x}",
                            what, f.name, d, MENU[f.menu].rust, f.offset, m.variant, got, expected
                        ),
                    );
                }
            }
        }
    }

    /// Verifies every record against the model, the ledger against the records, and the hooks.
    fn check_all(&mut self, value_prop: &'static str, ledger_prop: &'static str, what: &str) {
        self.fill_unset();
        let singles = std::mem::take(&mut self.singles);
        for (r, m) in &singles {
            self.verify(value_prop, what, &**r, m);
        }
        self.singles = singles;
        let mut groups = std::mem::take(&mut self.groups);
        for (g, ms) in groups.iter_mut() {
            if g.len() != ms.len() {
                self.find(value_prop, "group-length", format!("{}: vector holds {} records, model {}", what, g.len(), ms.len()));
                continue;
            }
            for (i, m) in ms.iter().enumerate() {
                let r = g.at(i);
                self.verify(value_prop, what, r, m);
            }
        }
        self.groups = groups;
        self.check_ledger(ledger_prop, what);
    }

    fn check_ledger(&mut self, prop: &'static str, what: &str) {
        for e in vtypes::ledger_take_errors() {
            self.find(prop, "double-drop", format!("{}: {}", what, e));
        }
        let live: BTreeSet<u64> = vtypes::ledger_live().into_iter().collect();
        let mut ids: Vec<u64> = vec![];
        let mut zst = 0i64;
        let mut bad: Vec<String> = vec![];
        {
            let info = self.info;
            let mut visit = |r: &dyn RecGlue, m: &MRec| {
                for f in &info.variants[m.variant].fields {
                    if MENU[f.menu].zst_counted {
                        zst += 1;
                    }
                    if MENU[f.menu].token {
                        let t = r.toks(f.id);
                        if t.is_empty() && f.menu != 32 {
                            bad.push(format!("token field {} reports no identity", f.name));
                        }
                        ids.extend(t);
                    }
                }
            };
            for (r, m) in &self.singles {
                visit(&**r, m);
            }
            for (g, ms) in self.groups.iter_mut() {
                if g.len() == ms.len() {
                    for (i, m) in ms.iter().enumerate() {
                        visit(g.at(i), m);
                    }
                }
            }
        }
        for b in bad {
            self.find(prop, "token-identity", format!("{}: {}", what, b));
        }
        let idset: BTreeSet<u64> = ids.iter().copied().collect();
        if idset.len() != ids.len() {
            self.find(prop, "shared-value", format!("{}: two record fields hold the same token value (ids {:?})", what, ids));
        }
        let dead: Vec<u64> = idset.difference(&live).copied().collect();
        if !dead.is_empty() {
            self.find(prop, "use-after-drop", format!("{}: records hold token values that were already destroyed: {:?}", what, dead));
        }
        let leaked: Vec<u64> = live.difference(&idset).copied().collect();
        if !leaked.is_empty() {
            self.find(prop, "leak", format!("{}: token values alive but owned by no record (never destroyed): {:?}", what, leaked));
        }
        if vtypes::zst_live() != zst {
            self.find(
                prop,
                if vtypes::zst_live() > zst { "leak" } else { "double-drop" },
                format!("{}: {} zero-size droppable values alive, records own {}", what, vtypes::zst_live(), zst),
            );
        }
        #[cfg(feature = "hooks")]
        for v in truc_runtime::verif_hooks::take_violations() {
            let sig = if v.starts_with("out-of-bounds") {
                "hook:out-of-bounds"
            } else if v.starts_with("misaligned") {
                "hook:misaligned"
            } else if v.contains("dropped while it still owns") {
                "hook:buffer-dropped-owning"
            } else {
                "hook:ownership"
            };
            self.find("C07", sig, format!("{}: {}", what, v));
        }
    }

    /// Model of a freshly constructed record from the seed log.
    fn model_new(&self, variant: usize, log: &[(usize, u64)], full: bool) -> MRec {
        let mut slots = BTreeMap::new();
        for f in self.fields(variant) {
            let seed = log.iter().find(|e| e.0 == f.id).map(|e| e.1);
            let slot = match seed {
                Some(s) => Some(expect_of(f.menu, s)),
                None => None,
            };
            let _ = full;
            slots.insert(f.id, slot);
        }
        MRec { variant, slots }
    }

    /// Model transition of a conversion to the next variant. Returns (next, removed slots).
    fn model_convert(&self, m: &MRec, log: &[(usize, u64)]) -> (MRec, Vec<(usize, Option<u64>)>) {
        let next_v = m.variant + 1;
        let mut slots = BTreeMap::new();
        for f in self.fields(next_v) {
            if let Some(s) = m.slots.get(&f.id) {
                slots.insert(f.id, *s);
            } else {
                let seed = log.iter().find(|e| e.0 == f.id).map(|e| e.1);
                slots.insert(f.id, seed.map(|s| expect_of(f.menu, s)));
            }
        }
        let removed = m.slots.iter().filter(|(d, _)| !slots.contains_key(d)).map(|(d, s)| (*d, *s)).collect();
        (MRec { variant: next_v, slots }, removed)
    }

    fn step_reuses_bytes(&self, from_variant: usize) -> bool {
        let a = self.fields(from_variant);
        let b = self.fields(from_variant + 1);
        let removed: Vec<&FieldInfo> = a.iter().filter(|f| !b.iter().any(|g| g.id == f.id)).collect();
        let added: Vec<&FieldInfo> = b.iter().filter(|f| !a.iter().any(|g| g.id == f.id)).collect();
        removed.iter().any(|r| added.iter().any(|x| ranges_intersect(r, x)))
    }

    fn note_conversion(&mut self, from_variant: usize) {
        self.flags.conversions += 1;
        if self.step_reuses_bytes(from_variant) {
            self.flags.conversions_reusing_bytes += 1;
        }
        let a = self.fields(from_variant);
        let b = self.fields(from_variant + 1);
        if a.iter().any(|f| !b.iter().any(|g| g.id == f.id) && MENU[f.menu].droppable) {
            self.flags.conversion_removed_droppable = true;
        }
    }

    /// Checks the removed data handed back by a conversion (`and_out` forms) and drops them.
    fn check_outs(&mut self, what: &str, from: &MRec, removed: &[(usize, Option<u64>)], and_out: bool, outs: Outs) {
        if !and_out {
            if !outs.is_empty() {
                self.find("C05", "harness", format!("{}: glue returned data for a simple conversion", what));
            }
            return;
        }
        let got: BTreeSet<usize> = outs.iter().map(|o| o.0).collect();
        let want: BTreeSet<usize> = removed.iter().map(|r| r.0).collect();
        if got != want {
            self.find("C05", "removed-set", format!("{}: conversion handed back data {:?}, removed data are {:?}", what, got, want));
        }
        for (d, v) in &outs {
            if let Some((_, Some(expected))) = removed.iter().find(|r| r.0 == *d) {
                if v.dyn_digest() != *expected {
                    let f = self.field(from.variant, *d);
                    self.find(
                        "C05",
                        "value-mismatch",
                        format!(
                            "{}: removed field {} ({}) handed back with digest {:#x}, expected {:#x}",
                            what, f.name, MENU[f.menu].rust, v.dyn_digest(), expected
                        ),
                    );
                }
            }
            for id in v.dyn_tok_ids() {
                if !vtypes::ledger_live().contains(&id) {
                    self.find("C06", "use-after-drop", format!("{}: removed token #{} handed back after it was destroyed", what, id));
                }
            }
        }
        drop(outs);
    }

    fn convert_single(&mut self, idx: usize, form: u8, what: &str) {
        let (r, m) = self.singles.remove(idx);
        let from_v = m.variant;
        let _ = ctx::take_log();
        let (r2, outs) = r.convert_dyn(form);
        let log = ctx::take_log();
        let (m2, removed) = self.model_convert(&m, &log);
        self.note_conversion(from_v);
        self.check_outs(what, &m, &removed, form >= 2, outs);
        self.singles.insert(idx, (r2, m2));
    }

    fn all_set(m: &MRec) -> bool {
        m.slots.values().all(|s| s.is_some())
    }

    fn apply(&mut self, op: &Op) {
        self.flags.executed_ops += 1;
        match op {
            Op::New { variant, full } => {
                let v = pick(*variant, self.info.variants.len());
                let _ = ctx::take_log();
                let r = if *full { self.def.new_full(v) } else { self.def.new_uninit(v) };
                let log = ctx::take_log();
                let m = self.model_new(v, &log, *full);
                if !*full {
                    self.flags.uninit_news += 1;
                    // only the mandatory fields may have been supplied
                    for f in self.fields(v) {
                        if f.uninit && m.slots[&f.id].is_some() {
                            self.find("C04", "harness", format!("glue supplied the optional field {} to new_uninit", f.name));
                        }
                    }
                }
                self.singles.push((r, m));
                if self.singles.len() > 6 {
                    // keep the population small
                    let (r, _) = self.singles.remove(0);
                    drop(r);
                }
                self.check_all("C04", "C06", "after construction");
            }
            Op::Field { rec, field, access, place } => {
                if self.singles.is_empty() {
                    self.flags.skipped_ops += 1;
                    return;
                }
                let i = pick(*rec, self.singles.len());
                let v = self.singles[i].1.variant;
                let fields = self.fields(v);
                if fields.is_empty() {
                    self.flags.skipped_ops += 1;
                    return;
                }
                let f = &fields[pick(*field, fields.len())];
                let d = f.id;
                let place = *place % 3;
                if place != 0 {
                    self.flags.stack_accesses += 1;
                }
                match access {
                    Access::Get => {
                        if let Some(expected) = self.singles[i].1.slots[&d] {
                            let mut got = 0;
                            match place {
                                1 => self.singles[i].0.with_stack(&mut |r| got = r.get(d)),
                                2 => self.singles[i].0.with_min_aligned(&mut |r| got = r.get(d)),
                                _ => got = self.singles[i].0.get(d),
                            }
                            if got != expected {
                                self.find(
                                    "C04",
                                    "value-mismatch",
                                    format!("read accessor of field {} ({} at offset {}) gives digest {:#x}, expected {:#x}", f.name, MENU[f.menu].rust, f.offset, got, expected),
                                );
                            }
                            if let Some((lr, ld)) = self.last_write {
                                if lr == i && ld != d {
                                    self.flags.write_then_read_other = true;
                                }
                            }
                        } else {
                            self.flags.skipped_ops += 1;
                        }
                    }
                    Access::Set | Access::Mutate => {
                        let seed = ctx::fresh_seed();
                        let set = *access == Access::Set || self.singles[i].1.slots[&d].is_none();
                        if place == 1 {
                            self.singles[i].0.with_stack(&mut |r| if set { r.set(d, seed) } else { r.mutate(d, seed) });
                        } else if place == 2 {
                            self.singles[i].0.with_min_aligned(&mut |r| if set { r.set(d, seed) } else { r.mutate(d, seed) });
                        } else if set {
                            self.singles[i].0.set(d, seed);
                        } else {
                            self.singles[i].0.mutate(d, seed);
                        }
                        self.singles[i].1.slots.insert(d, Some(expect_of(f.menu, seed)));
                        self.last_write = Some((i, d));
                        self.check_all("C04", "C06", "after a write through a mutable accessor");
                    }
                }
            }
            Op::Rebox { rec } => {
                if self.singles.is_empty() {
                    self.flags.skipped_ops += 1;
                    return;
                }
                let i = pick(*rec, self.singles.len());
                let (r, m) = self.singles.remove(i);
                self.singles.insert(i, (r.rebox(), m));
                self.check_all("C04", "C06", "after moving the record");
            }
            Op::Unpack { rec } => {
                if self.singles.is_empty() {
                    self.flags.skipped_ops += 1;
                    return;
                }
                let i = pick(*rec, self.singles.len());
                let (r, m) = self.singles.remove(i);
                self.last_write = None;
                let outs = r.unpack_dyn();
                let got: BTreeSet<usize> = outs.iter().map(|o| o.0).collect();
                let want: BTreeSet<usize> = m.slots.keys().copied().collect();
                if got != want {
                    self.find("C04", "unpack-set", format!("unpack returned data {:?}, the variant has {:?}", got, want));
                }
                for (d, v) in &outs {
                    if let Some(Some(expected)) = m.slots.get(d) {
                        if v.dyn_digest() != *expected {
                            let f = self.field(m.variant, *d);
                            self.find(
                                "C04",
                                "value-mismatch",
                                format!("unpack returned field {} ({}) with digest {:#x}, expected {:#x}", f.name, MENU[f.menu].rust, v.dyn_digest(), expected),
                            );
                        }
                    }
                    for id in v.dyn_tok_ids() {
                        if !vtypes::ledger_live().contains(&id) {
                            self.find("C06", "use-after-drop", format!("unpack handed back token #{} after it was destroyed", id));
                        }
                    }
                }
                drop(outs);
                self.flags.ended_by_unpack = true;
                self.check_all("C04", "C06", "after unpack");
            }
            Op::Drop { rec } => {
                if self.singles.is_empty() {
                    self.flags.skipped_ops += 1;
                    return;
                }
                let i = pick(*rec, self.singles.len());
                let (r, _m) = self.singles.remove(i);
                self.last_write = None;
                drop(r);
                self.flags.ended_by_drop = true;
                self.check_all("C04", "C06", "after dropping a record");
            }
            Op::Convert { rec, form } => {
                let candidates: Vec<usize> = (0..self.singles.len())
                    .filter(|&i| self.singles[i].1.variant + 1 < self.info.variants.len())
                    .collect();
                if candidates.is_empty() {
                    self.flags.skipped_ops += 1;
                    return;
                }
                let i = candidates[pick(*rec, candidates.len())];
                self.last_write = None;
                self.convert_single(i, *form % 4, "after a conversion");
                self.check_all("C05", "C06", "after a conversion");
            }
            Op::ConvertChain { rec, forms } => {
                let candidates: Vec<usize> = (0..self.singles.len())
                    .filter(|&i| self.singles[i].1.variant + 1 < self.info.variants.len())
                    .collect();
                if candidates.is_empty() {
                    self.flags.skipped_ops += 1;
                    return;
                }
                let i = candidates[pick(*rec, candidates.len())];
                self.last_write = None;
                self.flags.chains += 1;
                let mut k = 0;
                while self.singles[i].1.variant + 1 < self.info.variants.len() {
                    let form = ((*forms >> (2 * (k % 8))) & 3) as u8;
                    self.convert_single(i, form, "in a conversion chain");
                    self.check_all("C05", "C06", "in a conversion chain");
                    k += 1;
                }
            }
            Op::ToGroup { rec, group } => {
                if self.singles.is_empty() {
                    self.flags.skipped_ops += 1;
                    return;
                }
                let i = pick(*rec, self.singles.len());
                let v = self.singles[i].1.variant;
                self.last_write = None;
                let (r, m) = self.singles.remove(i);
                let matching: Vec<usize> = (0..self.groups.len()).filter(|&g| self.groups[g].0.variant() == v).collect();
                if !matching.is_empty() && *group % 4 != 0 {
                    let g = matching[pick(*group, matching.len())];
                    self.groups[g].0.push(r);
                    self.groups[g].1.push(m);
                } else {
                    let mut g = r.new_vec();
                    g.push(r);
                    self.groups.push((g, vec![m]));
                    if self.groups.len() > 3 {
                        let (g, _) = self.groups.remove(0);
                        drop(g);
                    }
                }
                self.check_all("C04", "C06", "after moving a record into a vector");
            }
            Op::FromGroup { group } => {
                if self.groups.is_empty() {
                    self.flags.skipped_ops += 1;
                    return;
                }
                let g = pick(*group, self.groups.len());
                if let Some(r) = self.groups[g].0.pop() {
                    let m = self.groups[g].1.pop().expect("model element");
                    self.singles.push((r, m));
                } else {
                    self.flags.skipped_ops += 1;
                }
                self.last_write = None;
                self.check_all("C04", "C06", "after moving a record out of a vector");
            }
            Op::GroupField { group, el, field, access } => {
                let nonempty: Vec<usize> = (0..self.groups.len()).filter(|&g| !self.groups[g].1.is_empty()).collect();
                if nonempty.is_empty() {
                    self.flags.skipped_ops += 1;
                    return;
                }
                let g = nonempty[pick(*group, nonempty.len())];
                let e = pick(*el, self.groups[g].1.len());
                let v = self.groups[g].1[e].variant;
                let fields = self.fields(v);
                if fields.is_empty() {
                    self.flags.skipped_ops += 1;
                    return;
                }
                let f = &fields[pick(*field, fields.len())];
                self.flags.group_access = true;
                match access {
                    Access::Get => {
                        if let Some(expected) = self.groups[g].1[e].slots[&f.id] {
                            let got = self.groups[g].0.at(e).get(f.id);
                            if got != expected {
                                self.find(
                                    "C04",
                                    "value-mismatch",
                                    format!("vector element {}: read accessor of field {} ({}) gives digest {:#x}, expected {:#x}", e, f.name, MENU[f.menu].rust, got, expected),
                                );
                            }
                        }
                    }
                    Access::Set | Access::Mutate => {
                        let seed = ctx::fresh_seed();
                        if *access == Access::Set || self.groups[g].1[e].slots[&f.id].is_none() {
                            self.groups[g].0.at(e).set(f.id, seed);
                        } else {
                            self.groups[g].0.at(e).mutate(f.id, seed);
                        }
                        self.groups[g].1[e].slots.insert(f.id, Some(expect_of(f.menu, seed)));
                        self.check_all("C04", "C06", "after a write to a vector element");
                    }
                }
            }
            Op::GroupConvertAll { group, form, mask, fail } => {
                let candidates: Vec<usize> = (0..self.groups.len())
                    .filter(|&g| self.groups[g].0.variant() + 1 < self.info.variants.len())
                    .collect();
                if candidates.is_empty() {
                    self.flags.skipped_ops += 1;
                    return;
                }
                let gi = candidates[pick(*group, candidates.len())];
                let (g, ms) = self.groups.remove(gi);
                let n = ms.len();
                let from_v = g.variant();
                let keep: Vec<bool> = (0..n).map(|i| (mask >> (i % 32)) & 1 == 1).collect();
                let fail_at = fail.filter(|_| n > 0).map(|s| pick(s, n));
                let form = *form % 4;
                let before = g.buffer();
                ctx::conv_begin(keep.clone(), fail_at);
                let _ = ctx::take_log();
                let res = g.convert_all(form);
                let log = ctx::take_log();
                let all_outs = ctx::conv_take_outs();
                self.flags.group_convert = true;
                match (res, fail_at) {
                    (Ok(g2), None) => {
                        // model: consume the log in element order
                        let per_elem = {
                            let a = self.fields(from_v);
                            let b = self.fields(from_v + 1);
                            b.iter().filter(|f| !a.iter().any(|x| x.id == f.id) && !(form % 2 == 1 && f.uninit)).count()
                        };
                        let mut ms2 = vec![];
                        let mut cursor = 0;
                        for (i, m) in ms.iter().enumerate() {
                            if keep[i] {
                                let chunk = &log[cursor.min(log.len())..(cursor + per_elem).min(log.len())];
                                cursor += per_elem;
                                let (m2, removed) = self.model_convert(m, chunk);
                                self.note_conversion(from_v);
                                let outs = all_outs.iter().position(|o| o.0 == i);
                                match outs {
                                    Some(_) => {}
                                    None => self.find("C05", "harness", format!("no conversion output recorded for element {}", i)),
                                }
                                ms2.push((i, m2, removed));
                            }
                        }
                        let mut all_outs = all_outs;
                        let mut models = vec![];
                        for (i, m2, removed) in ms2 {
                            if let Some(pos) = all_outs.iter().position(|o| o.0 == i) {
                                let (_, outs) = all_outs.remove(pos);
                                self.check_outs("in-place vector conversion", &ms[i], &removed, form >= 2, outs);
                            }
                            models.push(m2);
                        }
                        let after = g2.buffer();
                        if before != after {
                            self.find(
                                "C03",
                                "not-in-place",
                                format!("vector of variant {} records converted to variant {}: buffer {:?} became {:?}", from_v, from_v + 1, before, after),
                            );
                        }
                        self.groups.push((g2, models));
                    }
                    (Err(()), Some(_)) => {
                        // everything must have been destroyed
                        self.flags.group_convert_failed = true;
                        drop(all_outs);
                    }
                    (Ok(_), Some(p)) => self.find("C06", "harness", format!("conversion asked to fail at {} succeeded", p)),
                    (Err(()), None) => self.find("C05", "harness", "conversion failed although not asked to".to_string()),
                }
                self.check_all("C05", "C06", "after an in-place vector conversion");
            }
            Op::GroupDrop { group } => {
                if self.groups.is_empty() {
                    self.flags.skipped_ops += 1;
                    return;
                }
                let g = pick(*group, self.groups.len());
                let (g, _) = self.groups.remove(g);
                drop(g);
                self.flags.ended_by_drop = true;
                self.check_all("C04", "C06", "after dropping a vector of records");
            }
            Op::Clone { rec } | Op::CloneFuse { rec, .. } => {
                if self.singles.is_empty() || !self.info.has_clone() {
                    self.flags.skipped_ops += 1;
                    return;
                }
                let i = pick(*rec, self.singles.len());
                let fuse = if let Op::CloneFuse { n, .. } = op { Some(*n as i64) } else { None };
                let before_live = vtypes::ledger_live().len() as i64 + vtypes::zst_live();
                if let Some(n) = fuse {
                    vtypes::fuse_set(n);
                }
                let res = {
                    let r = &self.singles[i].0;
                    catch_unwind(AssertUnwindSafe(|| r.clone_dyn()))
                };
                vtypes::fuse_clear();
                match res {
                    Ok(Some(c)) => {
                        self.flags.clones += 1;
                        let m = self.singles[i].1.clone();
                        self.singles.push((c, m));
                        self.check_all("C16", "C16", "after clone");
                        // independence: mutate the clone, the source must not change (checked by check_all)
                        let last = self.singles.len() - 1;
                        let v = self.singles[last].1.variant;
                        if let Some(f) = self.fields(v).first() {
                            let seed = ctx::fresh_seed();
                            self.singles[last].0.set(f.id, seed);
                            self.singles[last].1.slots.insert(f.id, Some(expect_of(f.menu, seed)));
                            self.check_all("C16", "C16", "after mutating a clone");
                        }
                        if self.singles.len() > 6 {
                            let (r, _) = self.singles.remove(0);
                            drop(r);
                            self.check_all("C16", "C16", "after dropping a record that had been cloned");
                        }
                    }
                    Ok(None) => self.find("C16", "harness", "clone fragment enabled but glue has no clone".into()),
                    Err(payload) => {
                        if fuse.is_some() && payload.downcast_ref::<vtypes::FusePanic>().is_some() {
                            self.flags.clone_fuse_fired += 1;
                            let n_tokens = self.fields(self.singles[i].1.variant).iter().filter(|f| MENU[f.menu].token || MENU[f.menu].zst_counted).count();
                            if fuse.unwrap() >= 2 && n_tokens >= 2 {
                                self.flags.clone_fuse_fired_late = true;
                            }
                            let after_live = vtypes::ledger_live().len() as i64 + vtypes::zst_live();
                            if after_live != before_live {
                                self.find(
                                    "C16",
                                    if after_live > before_live { "leak" } else { "double-drop" },
                                    format!("a panic inside a field's clone left {} token values alive, {} before the clone", after_live, before_live),
                                );
                            }
                            self.check_all("C16", "C16", "after a panic inside clone");
                        } else {
                            self.find("C16", "clone-panicked", format!("clone panicked: {}", vcore::panic_message(payload)));
                        }
                    }
                }
            }
            Op::CloneFrom { dst, src } | Op::CloneFromFuse { dst, src, .. } => {
                if self.singles.len() < 2 || !self.info.has_clone() {
                    self.flags.skipped_ops += 1;
                    return;
                }
                let di = pick(*dst, self.singles.len());
                let v = self.singles[di].1.variant;
                let others: Vec<usize> = (0..self.singles.len()).filter(|&k| k != di && self.singles[k].1.variant == v).collect();
                if others.is_empty() {
                    self.flags.skipped_ops += 1;
                    return;
                }
                let si = others[pick(*src, others.len())];
                let fuse = if let Op::CloneFromFuse { n, .. } = op { Some(*n as i64) } else { None };
                if let Some(n) = fuse {
                    vtypes::fuse_set(n);
                }
                // split borrow
                let (d, s) = if di < si {
                    let (a, b) = self.singles.split_at_mut(si);
                    (&mut a[di], &b[0])
                } else {
                    let (a, b) = self.singles.split_at_mut(di);
                    (&mut b[0], &a[si])
                };
                let res = catch_unwind(AssertUnwindSafe(|| d.0.clone_from_dyn(&*s.0)));
                vtypes::fuse_clear();
                let src_model = s.1.clone();
                match res {
                    Ok(true) => {
                        self.flags.clones += 1;
                        self.singles[di].1.slots = src_model.slots.clone();
                        self.check_all("C16", "C16", "after clone_from");
                    }
                    Ok(false) => self.find("C16", "harness", "clone_from between different record types".into()),
                    Err(payload) => {
                        if fuse.is_some() && payload.downcast_ref::<vtypes::FusePanic>().is_some() {
                            self.flags.clone_fuse_fired += 1;
                            // The property only requires that nothing is leaked or destroyed twice. What a
                            // field holds after its own clone_from was interrupted is up to the field type
                            // (Vec::clone_from, for one, leaves a partially updated vector), so the model is
                            // re-read from the record.
                            let fields = self.fields(v);
                            for f in fields {
                                let old = self.singles[di].1.slots[&f.id];
                                let new = src_model.slots[&f.id];
                                match (old, new) {
                                    (Some(_), Some(_)) => {
                                        let got = self.singles[di].0.get(f.id);
                                        self.singles[di].1.slots.insert(f.id, Some(got));
                                    }
                                    _ => {
                                        self.singles[di].1.slots.insert(f.id, None);
                                    }
                                }
                            }
                            self.check_all("C16", "C16", "after a panic inside clone_from");
                        } else {
                            self.find("C16", "clone-panicked", format!("clone_from panicked: {}", vcore::panic_message(payload)));
                        }
                    }
                }
            }
            Op::Ser { rec, fmt } => {
                let candidates: Vec<usize> = (0..self.singles.len()).filter(|&i| Self::all_set(&self.singles[i].1)).collect();
                if candidates.is_empty() || !self.info.has_serde() {
                    self.flags.skipped_ops += 1;
                    return;
                }
                let i = candidates[pick(*rec, candidates.len())];
                // JSON cannot carry non-finite floats: such records go through the binary format
                let fmt = if self.singles[i].0.json_safe() { *fmt % 3 } else { 2 };
                let v = self.singles[i].1.variant;
                let bytes = match catch_unwind(AssertUnwindSafe(|| self.singles[i].0.ser(fmt))) {
                    Ok(Some(Ok(b))) => b,
                    Ok(Some(Err(e))) => {
                        self.find("C15", "serialize-failed", format!("serialising variant {} in format {} failed: {}", v, fmt, e));
                        return;
                    }
                    Ok(None) => {
                        self.find("C15", "harness", "serde fragment enabled but glue has no serde".into());
                        return;
                    }
                    Err(p) => {
                        self.find("C15", "serde-panic", format!("serialising panicked: {}", vcore::panic_message(p)));
                        return;
                    }
                };
                if fmt < 2 {
                    // declaration order
                    match serde_json::from_slice::<serde_json::Value>(&bytes) {
                        Ok(serde_json::Value::Array(a)) => {
                            let fields = self.fields(v);
                            if a.len() != fields.len() {
                                self.find("C15", "element-count", format!("variant {} with {} fields serialised as {} elements", v, fields.len(), a.len()));
                            } else {
                                for (k, f) in fields.iter().enumerate() {
                                    let want = self.singles[i].0.field_json(f.id).unwrap_or_default();
                                    if a[k].to_string() != want {
                                        self.find(
                                            "C15",
                                            "element-order",
                                            format!("element {} of the serialised variant {} is {}, field {} (declaration position {}) is {}", k, v, a[k], f.name, k, want),
                                        );
                                    }
                                }
                            }
                        }
                        Ok(other) => self.find("C15", "not-a-sequence", format!("a record serialised as {}", other)),
                        Err(e) => self.find("C15", "harness", format!("JSON output does not parse: {}", e)),
                    }
                }
                match catch_unwind(AssertUnwindSafe(|| self.def.de(v, fmt, &bytes))) {
                    Ok(Some(Ok(r2))) => {
                        self.flags.serde_roundtrips += 1;
                        let m = self.singles[i].1.clone();
                        self.singles.push((r2, m));
                        self.check_all("C15", "C15", "after a serialise/deserialise round trip");
                        if self.singles.len() > 6 {
                            let (r, _) = self.singles.remove(0);
                            drop(r);
                        }
                    }
                    Ok(Some(Err(e))) => self.find("C15", "roundtrip-rejected", format!("own output of variant {} (format {}) rejected: {}", v, fmt, e)),
                    Ok(None) => {}
                    Err(p) => self.find("C15", "serde-panic", format!("deserialising own output panicked: {}", vcore::panic_message(p))),
                }
            }
            Op::DeBad { rec, fmt, kind, pos } => {
                let candidates: Vec<usize> = (0..self.singles.len()).filter(|&i| Self::all_set(&self.singles[i].1)).collect();
                if candidates.is_empty() || !self.info.has_serde() {
                    self.flags.skipped_ops += 1;
                    return;
                }
                let i = candidates[pick(*rec, candidates.len())];
                let fmt = if self.singles[i].0.json_safe() { *fmt % 3 } else { 2 };
                let v = self.singles[i].1.variant;
                let fields = self.fields(v);
                let bytes = match catch_unwind(AssertUnwindSafe(|| self.singles[i].0.ser(fmt))) {
                    Ok(Some(Ok(b))) => b,
                    _ => {
                        self.flags.skipped_ops += 1;
                        return;
                    }
                };
                let (bad, what, position): (Vec<u8>, String, usize) = if fmt == 2 {
                    if bytes.is_empty() {
                        self.flags.skipped_ops += 1;
                        return;
                    }
                    let n = pick(*pos, bytes.len());
                    (bytes[..n].to_vec(), format!("bincode input cut to {} of {} bytes", n, bytes.len()), n)
                } else {
                    let mut a = match serde_json::from_slice::<serde_json::Value>(&bytes) {
                        Ok(serde_json::Value::Array(a)) => a,
                        _ => {
                            self.flags.skipped_ops += 1;
                            return;
                        }
                    };
                    let n = a.len();
                    let mut kind = *kind;
                    if n == 0 && kind != Corruption::Append {
                        kind = Corruption::Append;
                    }
                    let token_positions: Vec<usize> =
                        (0..fields.len()).filter(|&k| MENU[fields[k].menu].token || MENU[fields[k].menu].zst_counted).collect();
                    if kind == Corruption::Poison && token_positions.is_empty() {
                        kind = Corruption::ReplaceByObject;
                    }
                    let (what, p) = match kind {
                        Corruption::Truncate => {
                            // half of the cuts drop the last element only
                            let k = if *pos & 1 == 1 { n - 1 } else { pick(*pos, n) };
                            a.truncate(k);
                            (format!("JSON array cut to {} of {} elements", k, n), k)
                        }
                        Corruption::ReplaceByObject => {
                            let k = pick(*pos, n);
                            a[k] = serde_json::json!({});
                            (format!("JSON element {} replaced by {{}}", k), k)
                        }
                        Corruption::Poison => {
                            let k = token_positions[pick(*pos, token_positions.len())];
                            a[k] = serde_json::json!(POISON);
                            (format!("JSON element {} replaced by an undecodable token payload", k), k)
                        }
                        Corruption::Append => {
                            a.push(serde_json::json!(0));
                            (format!("JSON array with {} elements for {} fields", n + 1, n), n)
                        }
                    };
                    (serde_json::Value::Array(a).to_string().into_bytes(), what, p)
                };
                self.flags.serde_bad_inputs += 1;
                if position > 0 && fields.len() >= 2 && fields.iter().any(|f| MENU[f.menu].token) {
                    self.flags.serde_bad_pos_gt0_with_token = true;
                }
                match catch_unwind(AssertUnwindSafe(|| self.def.de(v, fmt, &bad))) {
                    Ok(Some(Err(_))) => {}
                    Ok(Some(Ok(r))) => {
                        self.find("C15", "bad-input-accepted", format!("variant {} (format {}): {} was accepted", v, fmt, what));
                        drop(r);
                    }
                    Ok(None) => {}
                    Err(p) => self.find("C15", "serde-panic", format!("variant {} (format {}): {} made the deserialiser panic: {}", v, fmt, what, vcore::panic_message(p))),
                }
                self.check_all("C15", "C15", "after rejecting a bad input");
            }
        }
    }
}

/// Static checks on the generated types of one definition / capacity.
fn static_checks(def: &dyn DefGlue, info: &DefInfo, findings: &mut Vec<Finding>) {
    let layouts = def.layouts();
    if let Some(first) = layouts.first() {
        for l in &layouts {
            if l.1 != first.1 || l.2 != first.2 {
                findings.push(Finding {
                    prop: "C03",
                    sig: "layouts-differ".into(),
                    msg: format!(
                        "generated record types of one definition differ in size/alignment for CAP {}: {} is {}/{} but {} is {}/{}",
                        def.cap(), first.0, first.1, first.2, l.0, l.1, l.2
                    ),
                });
                break;
            }
        }
        for l in &layouts {
            if l.1 < def.cap() {
                findings.push(Finding { prop: "C02", sig: "record-smaller-than-capacity".into(), msg: format!("{} has size {} < CAP {}", l.0, l.1, def.cap()) });
            }
            for v in &info.variants {
                for f in &v.fields {
                    if l.2 % f.align != 0 {
                        findings.push(Finding {
                            prop: "C02",
                            sig: "published-align".into(),
                            msg: format!("{} has alignment {}, not a multiple of the alignment {} of field {}", l.0, l.2, f.align, f.name),
                        });
                        return;
                    }
                }
            }
        }
    }
    for v in &info.variants {
        for f in &v.fields {
            if f.offset + f.size > def.max_size() {
                findings.push(Finding {
                    prop: "C02",
                    sig: "beyond-published-capacity".into(),
                    msg: format!("field {} at {}+{} exceeds the compiled MAX_SIZE {}", f.name, f.offset, f.size, def.max_size()),
                });
                return;
            }
        }
    }
}

pub struct CaseResult {
    pub findings: Vec<Finding>,
    pub flags: Flags,
}

/// Runs one case against one definition.
pub fn run_case(prop: &str, def: &dyn DefGlue, info: &DefInfo, case: &Case) -> CaseResult {
    vtypes::ledger_reset();
    ctx::reset(case.nonce);
    #[cfg(feature = "hooks")]
    {
        let _ = truc_runtime::verif_hooks::take_violations();
    }
    let mut findings = vec![];
    static_checks(def, info, &mut findings);
    let mut st = State { def, info, singles: vec![], groups: vec![], findings, flags: Flags::default(), last_write: None, step: 0 };
    for (k, op) in case.ops.iter().enumerate() {
        st.step = k;
        st.apply(op);
        // stop at the first finding that concerns the property being checked (findings of other
        // properties are only noted: their own checks report them)
        if st.findings.iter().any(|f| f.prop == prop) || st.findings.len() >= 8 {
            break;
        }
    }
    // end of life of whatever is left
    st.step = case.ops.len();
    let singles = std::mem::take(&mut st.singles);
    drop(singles);
    let groups = std::mem::take(&mut st.groups);
    drop(groups);
    if !st.findings.iter().any(|f| f.prop == prop) {
        st.check_all("C04", "C06", "after dropping everything that was left");
    }
    CaseResult { findings: st.findings, flags: st.flags }
}

/// Whether a case is non-trivial for a property (rules stated in the evidence).
pub fn nontrivial(prop: &str, info: &DefInfo, f: &Flags) -> bool {
    let aligns: BTreeSet<usize> = info.variants.iter().flat_map(|v| v.fields.iter().map(|f| f.align)).collect();
    let droppable = info.variants.iter().any(|v| v.fields.iter().any(|f| MENU[f.menu].droppable));
    match prop {
        "C03" => {
            let per_variant: BTreeSet<usize> = info.variants.iter().map(|v| v.fields.iter().map(|f| f.align).max().unwrap_or(1)).collect();
            info.variants.len() >= 3 && per_variant.len() >= 2
        }
        "C04" => f.write_then_read_other && aligns.len() >= 2,
        "C05" => f.conversions_reusing_bytes >= 1,
        "C06" => f.conversion_removed_droppable && (f.ended_by_drop || f.ended_by_unpack),
        "C07" => f.conversions_reusing_bytes >= 1 && droppable && (f.group_access || f.group_convert),
        "C15" => f.serde_bad_pos_gt0_with_token || (f.serde_roundtrips >= 1 && f.serde_bad_inputs >= 1),
        "C16" => f.clone_fuse_fired_late || (f.clones >= 1 && droppable),
        _ => f.executed_ops > f.skipped_ops,
    }
}

pub fn labels(f: &Flags) -> Vec<&'static str> {
    let mut v = vec![];
    if f.write_then_read_other { v.push("write_then_read_other"); }
    if f.conversions > 0 { v.push("has_conversion"); }
    if f.conversions_reusing_bytes > 0 { v.push("conversion_reusing_bytes"); }
    if f.conversion_removed_droppable { v.push("conversion_removed_droppable"); }
    if f.ended_by_drop { v.push("ended_by_drop"); }
    if f.ended_by_unpack { v.push("ended_by_unpack"); }
    if f.group_access { v.push("vector_element_access"); }
    if f.group_convert { v.push("vector_conversion"); }
    if f.group_convert_failed { v.push("vector_conversion_failed"); }
    if f.serde_roundtrips > 0 { v.push("serde_roundtrip"); }
    if f.serde_bad_inputs > 0 { v.push("serde_bad_input"); }
    if f.clones > 0 { v.push("clone"); }
    if f.clone_fuse_fired > 0 { v.push("clone_fuse_fired"); }
    if f.clone_fuse_fired_late { v.push("clone_fuse_fired_late"); }
    if f.stack_accesses > 0 { v.push("stack_access"); }
    if f.uninit_news > 0 { v.push("new_uninit"); }
    if f.chains > 0 { v.push("conversion_chain"); }
    v
}

/// Check function for `vcore::run_prop`.
pub fn check_case(prop: &'static str, defs: &[(&'static dyn DefGlue, &'static dyn DefGlue, DefInfo)], case: &Case) -> Result<CaseInfo, Failure> {
    if defs.is_empty() {
        return Ok(CaseInfo::default());
    }
    // the definitions on which the property can be exercised at all
    let eligible: Vec<usize> = (0..defs.len())
        .filter(|&k| match prop {
            "C15" => defs[k].2.has_serde(),
            "C16" => defs[k].2.has_clone(),
            _ => true,
        })
        .collect();
    if eligible.is_empty() {
        return Ok(CaseInfo { nontrivial: false, labels: vec!["no_eligible_definition"], counters: vec![] });
    }
    let (small, big, info) = &defs[eligible[pick(case.def, eligible.len())]];
    let def: &dyn DefGlue = if case.big_cap { *big } else { *small };
    let res = run_case(prop, def, info, case);
    let mine: Vec<&Finding> = res.findings.iter().filter(|f| f.prop == prop).collect();
    if let Some(f) = mine.first() {
        return Err(Failure::new(
            f.sig.clone(),
            format!("definition #{} (CAP {}{}): {}", info.index, def.cap(), if case.big_cap { " = MAX_SIZE+5" } else { "" }, f.msg),
        ));
    }
    let mut info_out = CaseInfo { nontrivial: nontrivial(prop, info, &res.flags), labels: labels(&res.flags), counters: vec![] };
    if !res.findings.is_empty() {
        info_out.labels.push("other_property_finding");
        info_out.nontrivial = false;
    }
    info_out.counters.push(("ops_executed", (res.flags.executed_ops - res.flags.skipped_ops.min(res.flags.executed_ops)) as u64));
    info_out.counters.push(("ops_skipped", res.flags.skipped_ops as u64));
    #[cfg(feature = "hooks")]
    {
        let c = truc_runtime::verif_hooks::take_counters();
        info_out.counters.push(("hook_reads", c.reads));
        info_out.counters.push(("hook_writes", c.writes));
        info_out.counters.push(("hook_gets", c.gets));
        info_out.counters.push(("hook_get_muts", c.get_muts));
        info_out.counters.push(("hook_misaligned_stores_unaligned_means", c.misaligned_stores));
        info_out.counters.push(("hook_droppable_accesses", c.droppable_accesses));
    }
    Ok(info_out)
}
