//! Operation sequences on records (definition independent: selectors are mapped monotonically
//! into what exists when the operation is interpreted).

use proptest::prelude::*;
use serde::{Deserialize, Serialize};

#[derive(Clone, Copy, Debug, Serialize, Deserialize, PartialEq, Eq, Hash)]
pub enum Access {
    Get,
    Set,
    Mutate,
}

#[derive(Clone, Copy, Debug, Serialize, Deserialize, PartialEq, Eq, Hash)]
pub enum Corruption {
    /// keep only the first `pos` elements / bytes
    Truncate,
    /// replace element `pos` by `{}` (JSON)
    ReplaceByObject,
    /// replace element `pos` by a poisoned token payload (JSON, token fields)
    Poison,
    /// append one element (JSON)
    Append,
}

#[derive(Clone, Debug, Serialize, Deserialize, PartialEq, Eq, Hash)]
pub enum Op {
    New { variant: u16, full: bool },
    Field { rec: u16, field: u16, access: Access, place: u8 },
    Rebox { rec: u16 },
    Unpack { rec: u16 },
    Drop { rec: u16 },
    Convert { rec: u16, form: u8 },
    /// Converts along the whole chain to the last variant, form per step from `forms` bits.
    ConvertChain { rec: u16, forms: u16 },
    ToGroup { rec: u16, group: u16 },
    FromGroup { group: u16 },
    GroupField { group: u16, el: u16, field: u16, access: Access },
    GroupConvertAll { group: u16, form: u8, mask: u32, fail: Option<u16> },
    GroupDrop { group: u16 },
    Clone { rec: u16 },
    CloneFrom { dst: u16, src: u16 },
    CloneFuse { rec: u16, n: u8 },
    CloneFromFuse { dst: u16, src: u16, n: u8 },
    Ser { rec: u16, fmt: u8 },
    DeBad { rec: u16, fmt: u8, kind: Corruption, pos: u16 },
}

#[derive(Clone, Debug, Serialize, Deserialize, PartialEq, Eq, Hash)]
pub struct Case {
    /// selector of the definition among the compiled ones
    pub def: u16,
    /// false: CAP = MAX_SIZE, true: CAP = MAX_SIZE + 5
    pub big_cap: bool,
    pub nonce: u64,
    pub ops: Vec<Op>,
}

fn access() -> impl Strategy<Value = Access> {
    prop_oneof![3 => Just(Access::Get), 3 => Just(Access::Set), 2 => Just(Access::Mutate)]
}

fn corruption() -> impl Strategy<Value = Corruption> {
    prop_oneof![
        3 => Just(Corruption::Truncate),
        2 => Just(Corruption::ReplaceByObject),
        2 => Just(Corruption::Poison),
        1 => Just(Corruption::Append)
    ]
}

/// Weights of the operation kinds per property.
pub fn op_strategy(prop: &str) -> BoxedStrategy<Op> {
    let new = (any::<u16>(), prop::bool::weighted(0.6)).prop_map(|(variant, full)| Op::New { variant, full });
    // place: 0 heap (Box), 1 stack, 2 heap address aligned for the record type and no more
    let field = (any::<u16>(), any::<u16>(), access(), 0u8..3)
        .prop_map(|(rec, field, access, place)| Op::Field { rec, field, access, place });
    let rebox = any::<u16>().prop_map(|rec| Op::Rebox { rec });
    let unpack = any::<u16>().prop_map(|rec| Op::Unpack { rec });
    let drop = any::<u16>().prop_map(|rec| Op::Drop { rec });
    let convert = (any::<u16>(), 0u8..4).prop_map(|(rec, form)| Op::Convert { rec, form });
    let chain = (any::<u16>(), any::<u16>()).prop_map(|(rec, forms)| Op::ConvertChain { rec, forms });
    let to_group = (any::<u16>(), any::<u16>()).prop_map(|(rec, group)| Op::ToGroup { rec, group });
    let from_group = any::<u16>().prop_map(|group| Op::FromGroup { group });
    let group_field = (any::<u16>(), any::<u16>(), any::<u16>(), access())
        .prop_map(|(group, el, field, access)| Op::GroupField { group, el, field, access });
    let convert_all = (any::<u16>(), 0u8..4, any::<u32>(), prop::option::weighted(0.2, any::<u16>()))
        .prop_map(|(group, form, mask, fail)| Op::GroupConvertAll { group, form, mask, fail });
    let group_drop = any::<u16>().prop_map(|group| Op::GroupDrop { group });
    let clone = any::<u16>().prop_map(|rec| Op::Clone { rec });
    let clone_from = (any::<u16>(), any::<u16>()).prop_map(|(dst, src)| Op::CloneFrom { dst, src });
    let clone_fuse = (any::<u16>(), 1u8..6).prop_map(|(rec, n)| Op::CloneFuse { rec, n });
    let clone_from_fuse = (any::<u16>(), any::<u16>(), 1u8..6).prop_map(|(dst, src, n)| Op::CloneFromFuse { dst, src, n });
    let ser = (any::<u16>(), 0u8..3).prop_map(|(rec, fmt)| Op::Ser { rec, fmt });
    let de_bad = (any::<u16>(), 0u8..3, corruption(), any::<u16>())
        .prop_map(|(rec, fmt, kind, pos)| Op::DeBad { rec, fmt, kind, pos });
    match prop {
        "C04" => prop_oneof![
            6 => new, 12 => field, 2 => rebox, 3 => unpack, 2 => drop, 3 => to_group, 2 => from_group, 5 => group_field, 1 => group_drop
        ]
        .boxed(),
        "C05" => prop_oneof![
            6 => new, 5 => field, 8 => convert, 3 => chain, 1 => rebox, 1 => unpack, 3 => to_group, 1 => from_group, 2 => group_field,
            4 => convert_all.prop_map(|op| match op { Op::GroupConvertAll { group, form, mask, .. } => Op::GroupConvertAll { group, form, mask, fail: None }, o => o })
        ]
        .boxed(),
        "C15" => prop_oneof![6 => new, 5 => field, 8 => ser, 10 => de_bad, 1 => drop, 2 => convert].boxed(),
        "C16" => prop_oneof![6 => new, 6 => field, 6 => clone, 5 => clone_from, 5 => clone_fuse, 5 => clone_from_fuse, 2 => drop, 2 => convert, 1 => unpack].boxed(),
        // C03, C06, C07 and anything else: the whole life of records
        _ => prop_oneof![
            8 => new, 8 => field, 1 => rebox, 3 => unpack, 3 => drop, 6 => convert, 2 => chain, 3 => to_group, 2 => from_group,
            3 => group_field, 4 => convert_all, 1 => group_drop, 2 => clone, 2 => clone_from, 1 => clone_fuse, 1 => clone_from_fuse,
            1 => ser, 1 => de_bad
        ]
        .boxed(),
    }
}

pub fn case_strategy(prop: &'static str) -> impl Strategy<Value = Case> {
    (
        any::<u16>(),
        any::<bool>(),
        any::<u64>(),
        any::<u16>(),
        prop::collection::vec(op_strategy(prop), 1..18),
    )
        .prop_map(|(def, big_cap, nonce, v0, mut ops)| {
            // every sequence starts by creating a record
            ops.insert(0, Op::New { variant: v0, full: nonce & 1 == 0 });
            Case { def, big_cap, nonce, ops }
        })
}

/// Total decoder of byte strings into cases (for the coverage-guided fuzz target).
pub fn decode_case(data: &[u8]) -> Case {
    struct R<'a>(&'a [u8], usize);
    impl<'a> R<'a> {
        fn u8(&mut self) -> u8 {
            let b = self.0.get(self.1).copied().unwrap_or(0);
            self.1 += 1;
            b
        }
        fn u16(&mut self) -> u16 {
            (self.u8() as u16) << 8 | self.u8() as u16
        }
        fn done(&self) -> bool {
            self.1 >= self.0.len()
        }
    }
    let mut r = R(data, 0);
    let def = r.u16();
    let flags = r.u8();
    let nonce = (r.u16() as u64) << 16 | r.u16() as u64;
    let mut ops = vec![Op::New { variant: r.u16(), full: flags & 2 == 0 }];
    let access = |b: u8| match b % 3 {
        0 => Access::Get,
        1 => Access::Set,
        _ => Access::Mutate,
    };
    while !r.done() && ops.len() < 24 {
        let k = r.u8() % 20;
        let op = match k {
            0 | 1 => Op::New { variant: r.u16(), full: r.u8() & 1 == 0 },
            2 | 3 | 4 => {
                let b = r.u8();
                Op::Field { rec: r.u16(), field: r.u16(), access: access(b), place: b >> 2 }
            }
            5 => Op::Rebox { rec: r.u16() },
            6 => Op::Unpack { rec: r.u16() },
            7 => Op::Drop { rec: r.u16() },
            8 | 9 => Op::Convert { rec: r.u16(), form: r.u8() % 4 },
            10 => Op::ConvertChain { rec: r.u16(), forms: r.u16() },
            11 => Op::ToGroup { rec: r.u16(), group: r.u16() },
            12 => Op::FromGroup { group: r.u16() },
            13 => {
                let b = r.u8();
                Op::GroupField { group: r.u16(), el: r.u16(), field: r.u16(), access: access(b) }
            }
            14 => {
                let b = r.u8();
                Op::GroupConvertAll {
                    group: r.u16(),
                    form: b % 4,
                    mask: (r.u16() as u32) << 16 | r.u16() as u32,
                    fail: if b & 0x80 != 0 { Some(r.u16()) } else { None },
                }
            }
            15 => Op::GroupDrop { group: r.u16() },
            16 => Op::Clone { rec: r.u16() },
            17 => Op::CloneFrom { dst: r.u16(), src: r.u16() },
            18 => Op::CloneFuse { rec: r.u16(), n: 1 + r.u8() % 5 },
            _ => Op::CloneFromFuse { dst: r.u16(), src: r.u16(), n: 1 + r.u8() % 5 },
        };
        ops.push(op);
    }
    Case { def, big_cap: flags & 1 == 1, nonce, ops }
}
