//! Operation sequences on records (definition independent: selectors are mapped monotonically
//! into what exists when the operation is interpreted).

use proptest::prelude::*;
use serde::{Deserialize, Serialize};

#[derive(Clone, Copy, Debug, Serialize, Deserialize, PartialEq, Eq, Hash)]
pub enum Access {
    Get,
    Set,
    Mutate,
}

#[derive(Clone, Copy, Debug, Serialize, Deserialize, PartialEq, Eq, Hash)]
pub enum Corruption {
    /// keep only the first `pos` elements / bytes
    Truncate,
    /// replace element `pos` by `{}` (JSON)
    ReplaceByObject,
    /// replace element `pos` by a poisoned token payload (JSON, token fields)
    Poison,
    /// append one element (JSON)
    Append,
}

#[derive(Clone, Debug, Serialize, Deserialize, PartialEq, Eq, Hash)]
pub enum Op {
    New { variant: u16, full: bool },
    Field { rec: u16, field: u16, access: Access, place: u8 },
    Rebox { rec: u16 },
    Unpack { rec: u16 },
    Drop { rec: u16 },
    Convert { rec: u16, form: u8 },
    /// Converts along the whole chain to the last variant, form per step from `forms` bits.
    ConvertChain { rec: u16, forms: u16 },
    ToGroup { rec: u16, group: u16 },
    FromGroup { group: u16 },
    GroupField { group: u16, el: u16, field: u16, access: Access },
    GroupConvertAll { group: u16, form: u8, mask: u32, fail: Option<u16> },
    GroupDrop { group: u16 },
    Clone { rec: u16 },
    CloneFrom { dst: u16, src: u16 },
    CloneFuse { rec: u16, n: u8 },
    CloneFromFuse { dst: u16, src: u16, n: u8 },
    Ser { rec: u16, fmt: u8 },
    DeBad { rec: u16, fmt: u8, kind: Corruption, pos: u16 },
}

#[derive(Clone, Debug, Serialize, Deserialize, PartialEq, Eq, Hash)]
pub struct Case {
    /// selector of the definition among the compiled ones
    pub def: u16,
    /// false: CAP = MAX_SIZE, true: CAP = MAX_SIZE + 5
    pub big_cap: bool,
    pub nonce: u64,
    pub ops: Vec<Op>,
}

fn access() -> impl Strategy<Value = Access> {
    prop_oneof![3 => Just(Access::Get), 3 => Just(Access::Set), 2 => Just(Access::Mutate)]
}

fn corruption() -> impl Strategy<Value = Corruption> {
    prop_oneof![
        3 => Just(Corruption::Truncate),
        2 => Just(Corruption::ReplaceByObject),
        2 => Just(Corruption::Poison),
        1 => Just(Corruption::Append)
    ]
}

/// Weights of the operation kinds per property.
pub fn op_strategy(prop: &str) -> BoxedStrategy<Op> {
    let new = (any::<u16>(), prop::bool::weighted(0.6)).prop_map(|(variant, full)| Op::New { variant, full });
    // place: 0 heap (Box), 1 stack, 2 heap address aligned for the record type and no more
    let field = (any::<u16>(), any::<u16>(), access(), 0u8..3)
        .prop_map(|(rec, field, access, place)| Op::Field { rec, field, access, place });
    let rebox = any::<u16>().prop_map(|rec| Op::Rebox { rec });
    let unpack = any::<u16>().prop_map(|rec| Op::Unpack { rec });
    let drop = any::<u16>().prop_map(|rec| Op::Drop { rec });
    let convert = (any::<u16>(), 0u8..4).prop_map(|(rec, form)| Op::Convert { rec, form });
    let chain = (any::<u16>(), any::<u16>()).prop_map(|(rec, forms)| Op::ConvertChain { rec, forms });
    let to_group = (any::<u16>(), any::<u16>()).prop_map(|(rec, group)| Op::ToGroup { rec, group });
    let from_group = any::<u16>().prop_map(|group| Op::FromGroup { group });
    let group_field = (any::<u16>(), any::<u16>(), any::<u16>(), access())
        .prop_map(|(group, el, field, access)| Op::GroupField { group, el, field, access });
    let convert_all = (any::<u16>(), 0u8..4, any::<u32>(), prop::option::weighted(0.2, any::<u16>()))
        .prop_map(|(group, form, mask, fail)| Op::GroupConvertAll { group, form, mask, fail });
    let group_drop = any::<u16>().prop_map(|group| Op::GroupDrop { group });
    let clone = any::<u16>().prop_map(|rec| Op::Clone { rec });
    let clone_from = (any::<u16>(), any::<u16>()).prop_map(|(dst, src)| Op::CloneFrom { dst, src });
    let clone_fuse = (any::<u16>(), 1u8..6).prop_map(|(rec, n)| Op::CloneFuse { rec, n });
    let clone_from_fuse = (any::<u16>(), any::<u16>(), 1u8..6).prop_map(|(dst, src, n)| Op::CloneFromFuse { dst, src, n });
    let ser = (any::<u16>(), 0u8..3).prop_map(|(rec, fmt)| Op::Ser { rec, fmt });
    let de_bad = (any::<u16>(), 0u8..3, corruption(), any::<u16>())
        .prop_map(|(rec, fmt, kind, pos)| Op::DeBad { rec, fmt, kind, pos });
    match prop {
        "C04" => prop_oneof![
            6 => new, 12 => field, 2 => rebox, 3 => unpack, 2 => drop, 3 => to_group, 2 => from_group, 5 => group_field, 1 => group_drop
        ]
        .boxed(),
        "C05" => prop_oneof![
            6 => new, 5 => field, 8 => convert, 3 => chain, 1 => rebox, 1 => unpack, 3 => to_group, 1 => from_group, 2 => group_field,
            4 => convert_all.prop_map(|op| match op { Op::GroupConvertAll { group, form, mask, .. } => Op::GroupConvertAll { group, form, mask, fail: None }, o => o })
        ]
        .boxed(),
        "C15" => prop_oneof![6 => new, 5 => field, 8 => ser, 10 => de_bad, 1 => drop, 2 => convert].boxed(),
        "C16" => prop_oneof![6 => new, 6 => field, 6 => clone, 5 => clone_from, 5 => clone_fuse, 5 => clone_from_fuse, 2 => drop, 2 => convert, 1 => unpack].boxed(),
        // C03, C06, C07 and anything else: the whole life of records
        _ => prop_oneof![
            8 => new, 8 => field, 1 => rebox, 3 => unpack, 3 => drop, 6 => convert, 2 => chain, 3 => to_group, 2 => from_group,
            3 => group_field, 4 => convert_all, 1 => group_drop, 2 => clone, 2 => clone_from, 1 => clone_fuse, 1 => clone_from_fuse,
            1 => ser, 1 => de_bad
        ]
        .boxed(),
    }
}

pub fn case_strategy(prop: &'static str) -> impl Strategy<Value = Case> {
    (
        any::<u16>(),
        any::<bool>(),
        any::<u64>(),
        any::<u16>(),
        prop::collection::vec(op_strategy(prop), 1..18),
    )
        .prop_map(|(def, big_cap, nonce, v0, mut ops)| {
            // every sequence starts by creating a record
            ops.insert(0, Op::New { variant: v0, full: nonce & 1 == 0 });
            Case { def, big_cap, nonce, ops }
        })
}
