//! The dynamic interface generated glue implements for every record type of every definition.

use std::any::Any;

use serde::Deserialize;

use crate::ctx::Outs;

pub trait RecGlue: 'static {
    fn variant(&self) -> usize;
    /// Digest of the field (through the read accessor).
    fn get(&self, datum: usize) -> u64;
    /// Ledger identities of the tracked tokens owned by the field's value.
    fn toks(&self, datum: usize) -> Vec<u64>;
    /// Assigns a new value through the mutable accessor (the old value is dropped by the assignment).
    fn set(&mut self, datum: usize, seed: u64);
    /// Changes the value in place through the mutable accessor.
    fn mutate(&mut self, datum: usize, seed: u64);
    /// Moves the record to the stack, runs `f` on it there, moves it back.
    fn with_stack(&mut self, f: &mut dyn FnMut(&mut dyn RecGlue));
    /// Moves the record to an address aligned for its type and no more, runs `f`, moves it back.
    fn with_min_aligned(&mut self, f: &mut dyn FnMut(&mut dyn RecGlue));
    fn rebox(self: Box<Self>) -> Box<dyn RecGlue>;
    fn unpack_dyn(self: Box<Self>) -> Outs;
    /// Converts to the next variant (form 0..3 = simple/full, simple/uninit, and-out/full, and-out/uninit).
    fn convert_dyn(self: Box<Self>, form: u8) -> (Box<dyn RecGlue>, Outs);
    fn clone_dyn(&self) -> Option<Box<dyn RecGlue>>;
    fn clone_from_dyn(&mut self, source: &dyn RecGlue) -> bool;
    /// fmt 0: JSON text, 1: `serde_json::Value` (rendered), 2: bincode. `None`: no serde fragment.
    fn ser(&self, fmt: u8) -> Option<Result<Vec<u8>, String>>;
    /// Whether every field currently holds a value JSON can carry.
    fn json_safe(&self) -> bool;
    /// JSON rendering of one field through its accessor.
    fn field_json(&self, datum: usize) -> Option<String>;
    fn new_vec(&self) -> Box<dyn VecGlue>;
    fn addr(&self) -> usize;
    fn into_any(self: Box<Self>) -> Box<dyn Any>;
    fn as_any(&self) -> &dyn Any;
}

pub trait VecGlue {
    fn variant(&self) -> usize;
    fn len(&self) -> usize;
    fn push(&mut self, rec: Box<dyn RecGlue>);
    fn pop(&mut self) -> Option<Box<dyn RecGlue>>;
    fn at(&mut self, index: usize) -> &mut dyn RecGlue;
    fn buffer(&self) -> (usize, usize);
    /// In-place conversion of the whole vector to the next variant; mask, failure position and the
    /// returned removed data go through `ctx`. `Err`: the converter failed where asked to.
    fn convert_all(self: Box<Self>, form: u8) -> Result<Box<dyn VecGlue>, ()>;
}

pub trait DefGlue: Sync {
    fn info_json(&self) -> &'static str;
    fn cap(&self) -> usize;
    fn max_size(&self) -> usize;
    fn new_full(&self, variant: usize) -> Box<dyn RecGlue>;
    fn new_uninit(&self, variant: usize) -> Box<dyn RecGlue>;
    fn de(&self, variant: usize, fmt: u8, bytes: &[u8]) -> Option<Result<Box<dyn RecGlue>, String>>;
    /// (type name, size_of, align_of) of every generated record type for this capacity.
    fn layouts(&self) -> Vec<(String, usize, usize)>;
}

#[derive(Clone, Debug, Deserialize)]
pub struct FieldInfo {
    pub id: usize,
    pub name: String,
    pub menu: usize,
    pub uninit: bool,
    pub offset: usize,
    pub size: usize,
    pub align: usize,
}

#[derive(Clone, Debug, Deserialize)]
pub struct VariantInfo {
    /// in datum id order
    pub fields: Vec<FieldInfo>,
}

#[derive(Clone, Debug, Deserialize)]
pub struct DefInfo {
    pub index: usize,
    pub fragsel: usize,
    pub max_size: usize,
    pub max_align: usize,
    pub variants: Vec<VariantInfo>,
    pub history: serde_json::Value,
}

impl DefInfo {
    pub fn has_clone(&self) -> bool {
        self.fragsel & 1 == 1
    }
    pub fn has_serde(&self) -> bool {
        self.fragsel & 2 == 2
    }
}

/// Moves a value to the stack, runs `f`, moves it back (used by generated glue).
pub fn via_stack<R: RecGlue>(r: &mut R, f: &mut dyn FnMut(&mut dyn RecGlue)) {
    struct Abort;
    impl Drop for Abort {
        fn drop(&mut self) {
            // a panic while the record is duplicated would drop it twice
            std::process::abort();
        }
    }
    unsafe {
        let mut tmp: R = std::ptr::read(r);
        let guard = Abort;
        f(&mut tmp);
        std::mem::forget(guard);
        std::ptr::write(r, tmp);
    }
}

/// Moves a value to a heap address that is aligned to exactly `align_of::<R>()` (and not to the
/// next power of two, when that is below 64), runs `f`, moves it back.
pub fn via_min_aligned<R: RecGlue>(r: &mut R, f: &mut dyn FnMut(&mut dyn RecGlue)) {
    struct Abort;
    impl Drop for Abort {
        fn drop(&mut self) {
            std::process::abort();
        }
    }
    let align = std::mem::align_of::<R>();
    let size = std::mem::size_of::<R>();
    let skew = if align < 64 { align } else { 0 };
    let layout = std::alloc::Layout::from_size_align(size + skew + 64, 64.max(align)).expect("layout");
    unsafe {
        let base = std::alloc::alloc(layout);
        if base.is_null() {
            std::process::abort();
        }
        let slot = base.add(skew) as *mut R;
        std::ptr::write(slot, std::ptr::read(r));
        let guard = Abort;
        f(&mut *slot);
        std::mem::forget(guard);
        std::ptr::write(r, std::ptr::read(slot));
        std::alloc::dealloc(base, layout);
    }
}
