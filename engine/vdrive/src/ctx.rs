//! Thread-local context shared between the interpreter and the generated glue: the seed source
//! (every value the glue builds takes its seed here, and the interpreter reads the log back) and
//! the state of an in-place vector conversion (glue closures must not capture anything).

use std::cell::RefCell;

use vtypes::DynField;

pub type Outs = Vec<(usize, Box<dyn DynField>)>;

#[derive(Default)]
struct Ctx {
    nonce: u64,
    counter: u64,
    log: Vec<(usize, u64)>,
    mask: Vec<bool>,
    conv_index: usize,
    conv_outs: Vec<(usize, Outs)>,
    fail_at: Option<usize>,
}

thread_local! {
    static CTX: RefCell<Ctx> = RefCell::new(Ctx::default());
}

pub fn reset(nonce: u64) {
    CTX.with(|c| {
        let mut c = c.borrow_mut();
        *c = Ctx::default();
        c.nonce = nonce;
    });
}

/// Next seed, for the datum `datum` (logged).
pub fn seed(datum: usize) -> u64 {
    CTX.with(|c| {
        let mut c = c.borrow_mut();
        c.counter += 1;
        let s = vtypes::mix(c.nonce ^ c.counter.wrapping_mul(0x9E3779B97F4A7C15));
        c.log.push((datum, s));
        s
    })
}

/// A seed that is not logged (interpreter side).
pub fn fresh_seed() -> u64 {
    CTX.with(|c| {
        let mut c = c.borrow_mut();
        c.counter += 1;
        vtypes::mix(c.nonce ^ c.counter.wrapping_mul(0x9E3779B97F4A7C15))
    })
}

pub fn take_log() -> Vec<(usize, u64)> {
    CTX.with(|c| std::mem::take(&mut c.borrow_mut().log))
}

pub fn conv_begin(mask: Vec<bool>, fail_at: Option<usize>) {
    CTX.with(|c| {
        let mut c = c.borrow_mut();
        c.mask = mask;
        c.conv_index = 0;
        c.conv_outs.clear();
        c.fail_at = fail_at;
    });
}

/// (index of the element, whether to convert it, whether to fail on it)
pub fn conv_next() -> (usize, bool, bool) {
    CTX.with(|c| {
        let mut c = c.borrow_mut();
        let i = c.conv_index;
        c.conv_index += 1;
        (i, c.mask.get(i).copied().unwrap_or(false), c.fail_at == Some(i))
    })
}

pub fn conv_push_outs(index: usize, outs: Outs) {
    CTX.with(|c| c.borrow_mut().conv_outs.push((index, outs)));
}

pub fn conv_take_outs() -> Vec<(usize, Outs)> {
    CTX.with(|c| std::mem::take(&mut c.borrow_mut().conv_outs))
}

pub fn conv_calls() -> usize {
    CTX.with(|c| c.borrow().conv_index)
}
