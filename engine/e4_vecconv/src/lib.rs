//! E4: convert_vec_in_place / try_convert_vec_in_place (C08, C09, C10).
//!
//! usage:
//!   e4_vecconv run <C08|C09|C10> <random cases> <enum max len> <result.json>
//!   e4_vecconv replay <PROP> <case.json>

pub mod types;

use std::{
    cell::{Cell, RefCell},
    panic::{catch_unwind, panic_any, AssertUnwindSafe},
};

use proptest::prelude::*;
use serde::{Deserialize, Serialize};
use truc_runtime::convert::{convert_vec_in_place, try_convert_vec_in_place, VecElementConversionResult};
use types::*;
use vcore::*;

// ---------------------------------------------------------------------------------------------
// Scenario

#[derive(Clone, Copy, Debug, Serialize, Deserialize, PartialEq, Eq, Hash)]
pub enum PrevUse {
    Ignore,
    Read,
    Modify(u8),
    /// assign a whole new value to the previous output (the old one is dropped by the assignment)
    Replace(u8),
}

#[derive(Clone, Copy, Debug, Serialize, Deserialize, PartialEq, Eq, Hash)]
pub struct Action {
    pub convert: bool,
    pub prev: PrevUse,
}

#[derive(Clone, Copy, Debug, Serialize, Deserialize, PartialEq, Eq, Hash)]
pub enum FailKind {
    /// `Err` returned (try_ entry only)
    ErrRet,
    /// panic before touching the input
    PanicBefore,
    /// panic after dropping the input
    PanicAfterDrop,
    /// panic after building the output (and dropping the input)
    PanicAfterBuild,
    /// panic after modifying the previous output
    PanicAfterPrevModified,
    /// panic / Err after assigning a whole new value to the previous output
    PanicAfterPrevReplaced,
    ErrAfterPrevReplaced,
}

#[derive(Clone, Debug, Serialize, Deserialize, PartialEq, Eq, Hash)]
pub struct Scenario {
    pub pair: u8,
    pub spare: u16,
    pub actions: Vec<Action>,
    /// use `try_convert_vec_in_place` (else `convert_vec_in_place`)
    pub try_entry: bool,
    pub failure: Option<(u16, FailKind)>,
    /// call the conversion from a destructor that runs while the thread unwinds from an unrelated panic
    #[serde(default)]
    pub in_unwind: bool,
}

/// Runs `f` inside a destructor executed while the thread is unwinding from a panic of its own.
fn run_while_unwinding<R>(f: impl FnOnce() -> R) -> R {
    struct OnDrop<'a, R, F: FnOnce() -> R>(Option<F>, &'a mut Option<R>);
    impl<'a, R, F: FnOnce() -> R> Drop for OnDrop<'a, R, F> {
        fn drop(&mut self) {
            debug_assert!(std::thread::panicking());
            *self.1 = Some((self.0.take().expect("once"))());
        }
    }
    struct Outer;
    let mut out = None;
    let r = catch_unwind(AssertUnwindSafe(|| {
        let _guard = OnDrop(Some(f), &mut out);
        std::panic::panic_any(Outer);
    }));
    assert!(matches!(r, Err(ref e) if e.is::<Outer>()), "the outer panic is what the outer catch sees");
    out.expect("the destructor ran")
}

struct ConvState {
    actions: Vec<Action>,
    fail_at: Option<(usize, FailKind)>,
    calls: usize,
    /// per call: (input id, input val, prev (id, val) as seen on entry)
    log: Vec<(u64, u32, Option<(u64, u32)>)>,
    /// ids of produced outputs in order
    produced: Vec<u64>,
}

thread_local! {
    static CONV: RefCell<ConvState> = RefCell::new(ConvState { actions: vec![], fail_at: None, calls: 0, log: vec![], produced: vec![] });
}

#[derive(Debug)]
pub struct ErrTok(pub u64);
#[derive(Debug)]
pub struct Payload(pub u64);

fn out_val(in_val: u32, index: usize) -> u32 {
    in_val.wrapping_mul(31).wrapping_add(index as u32 * 7 + 1)
}

fn converter<T: Elem, U: Elem>(t: T, prev: Option<&mut U>) -> Result<VecElementConversionResult<U>, ErrTok> {
    let (index, action, fail) = CONV.with(|c| {
        let mut c = c.borrow_mut();
        let index = c.calls;
        c.calls += 1;
        let prev_seen = prev.as_ref().map(|u| (u.id(), u.val()));
        c.log.push((t.id(), t.val(), prev_seen));
        let action = c.actions.get(index).copied().unwrap_or(Action { convert: false, prev: PrevUse::Ignore });
        let fail = c.fail_at.filter(|f| f.0 == index).map(|f| f.1);
        (index, action, fail)
    });
    match fail {
        Some(FailKind::PanicBefore) => raise(0xBEF0_0000 + index as u64, index),
        Some(FailKind::PanicAfterDrop) => {
            drop(t);
            raise(0xD0_0000 + index as u64, index)
        }
        Some(FailKind::PanicAfterBuild) => {
            let out = U::make(out_val(t.val(), index));
            drop(t);
            let _keep = out;
            raise(0xB1_0000 + index as u64, index)
        }
        Some(FailKind::PanicAfterPrevModified) => {
            if let Some(u) = prev {
                let v = u.val();
                u.set_val(v.wrapping_add(0x5A5A));
            }
            raise(0xAB_0000 + index as u64, index)
        }
        Some(FailKind::PanicAfterPrevReplaced) | Some(FailKind::ErrAfterPrevReplaced) => {
            if let Some(u) = prev {
                let v = u.val();
                *u = U::make(v.wrapping_add(0x77));
            }
            if fail == Some(FailKind::ErrAfterPrevReplaced) {
                return Err(ErrTok(0xEA_0000 + index as u64));
            }
            raise(0xAC_0000 + index as u64, index)
        }
        Some(FailKind::ErrRet) => return Err(ErrTok(0xE0_0000 + index as u64)),
        None => {}
    }
    if let Some(u) = prev {
        match action.prev {
            PrevUse::Modify(d) => {
                let v = u.val();
                u.set_val(v.wrapping_add(d as u32 + 1));
            }
            PrevUse::Replace(d) => {
                let v = u.val();
                *u = U::make(v.wrapping_add(d as u32 + 3));
                let id = u.id();
                CONV.with(|c| {
                    if let Some(last) = c.borrow_mut().produced.last_mut() {
                        *last = id;
                    }
                });
            }
            _ => {}
        }
    }
    if action.convert {
        let out = U::make(out_val(t.val(), index));
        CONV.with(|c| c.borrow_mut().produced.push(out.id()));
        drop(t);
        Ok(VecElementConversionResult::Converted(out))
    } else {
        drop(t);
        Ok(VecElementConversionResult::Abandonned)
    }
}

/// The converter's panics carry, in turn, a custom value, an owned `String` (what `panic!("{}", ..)`, `unwrap`
/// and `expect` raise) and a string literal.
fn raise(code: u64, index: usize) -> ! {
    match index % 3 {
        0 => panic_any(Payload(code)),
        1 => panic_any(payload_text(code)),
        _ => panic_any("the converter gives up (a string literal)"),
    }
}

fn payload_text(code: u64) -> String {
    format!("the converter gives up: code {:#x}", code)
}

fn expected_payload(index: usize, kind: FailKind) -> u64 {
    index as u64
        + match kind {
            FailKind::PanicBefore => 0xBEF0_0000,
            FailKind::PanicAfterDrop => 0xD0_0000,
            FailKind::PanicAfterBuild => 0xB1_0000,
            FailKind::ErrRet => 0xE0_0000,
            FailKind::PanicAfterPrevModified => 0xAB_0000,
            FailKind::PanicAfterPrevReplaced => 0xAC_0000,
            FailKind::ErrAfterPrevReplaced => 0xEA_0000,
        }
}

#[derive(Default)]
pub struct Stats {
    pub nontrivial08: bool,
    pub nontrivial09: bool,
    pub labels: Vec<&'static str>,
}

/// Runs one scenario for the type pair (T, U) and checks C08 (success) or C09 (failure).
fn run_pair<T: Elem, U: Elem>(sc: &Scenario) -> Result<Stats, Failure> {
    ledger_reset();
    let len = sc.actions.len();
    let fail = sc.failure.and_then(|(sel, kind)| {
        if len == 0 {
            return None;
        }
        let kind = match kind {
            FailKind::ErrRet if !sc.try_entry => FailKind::PanicBefore,
            FailKind::ErrAfterPrevReplaced if !sc.try_entry => FailKind::PanicAfterPrevReplaced,
            k => k,
        };
        Some((pick(sel, len), kind))
    });
    let mut input: Vec<T> = Vec::with_capacity(len + sc.spare as usize);
    let mut in_ids = vec![];
    let mut in_vals = vec![];
    for i in 0..len {
        let v = 1000 + i as u32 * 3;
        let t = T::make(v);
        in_ids.push(t.id());
        in_vals.push(if T::STORES_VAL { v } else { 0 });
        input.push(t);
    }
    let in_ptr = input.as_ptr() as usize;
    let in_cap = input.capacity();
    let tracked_alloc = std::mem::size_of::<T>() > 0 && in_cap > 0;
    CONV.with(|c| {
        *c.borrow_mut() = ConvState { actions: sc.actions.clone(), fail_at: fail, calls: 0, log: vec![], produced: vec![] }
    });
    if tracked_alloc {
        alloc_watch(in_ptr, in_cap * std::mem::size_of::<T>(), std::mem::align_of::<T>());
    }
    let call = || {
        catch_unwind(AssertUnwindSafe(|| {
            if sc.try_entry {
                try_convert_vec_in_place::<T, U, _, ErrTok>(input, converter::<T, U>)
            } else {
                Ok(convert_vec_in_place::<T, U, _>(input, |t, u| match converter::<T, U>(t, u) {
                    Ok(r) => r,
                    Err(_) => unreachable!("ErrRet is only generated for the try_ entry"),
                }))
            }
        }))
    };
    let result = if sc.in_unwind && cfg!(panic = "unwind") { run_while_unwinding(call) } else { call() };
    // state right after the call; the allocation stays watched until the result is dropped
    let release_during = if tracked_alloc { alloc_state() } else { Release::NotReleased };
    let freed_during = release_during != Release::NotReleased;
    let (calls, log, produced) = CONV.with(|c| {
        let c = c.borrow();
        (c.calls, c.log.clone(), c.produced.clone())
    });

    // Model
    let mut model: Vec<u32> = vec![]; // output values
    let upto = fail.map_or(len, |f| f.0);
    let mut expected_prev: Vec<Option<(usize, u32)>> = vec![]; // (output index, value seen)
    for i in 0..upto {
        let a = sc.actions[i];
        expected_prev.push(model.last().map(|v| (model.len() - 1, *v)));
        match (model.last_mut(), a.prev) {
            (Some(last), PrevUse::Modify(d)) if U::STORES_VAL => *last = last.wrapping_add(d as u32 + 1),
            (Some(last), PrevUse::Replace(d)) if U::STORES_VAL => *last = last.wrapping_add(d as u32 + 3),
            _ => {}
        }
        if a.convert {
            model.push(if U::STORES_VAL { out_val(in_vals[i], i) } else { 0 });
        }
    }
    if fail.is_some() {
        expected_prev.push(model.last().map(|v| (model.len() - 1, *v)));
    }

    // Converter log: every input exactly once, in order, with the right previous output
    let expected_calls = fail.map_or(len, |f| f.0 + 1);
    if calls != expected_calls {
        return Err(Failure::new(
            if fail.is_some() { "c09:call-count" } else { "c08:call-count" },
            format!("converter called {} times, expected {} (len {}, failure {:?})", calls, expected_calls, len, fail),
        ));
    }
    for (i, entry) in log.iter().enumerate() {
        if T::TRACKED && entry.0 != in_ids[i] || entry.1 != in_vals[i] {
            return Err(Failure::new(
                "c08:input-order",
                format!("call #{} received input (id {}, val {}), expected (id {}, val {})", i, entry.0, entry.1, in_ids[i], in_vals[i]),
            ));
        }
        let exp = expected_prev[i];
        match (entry.2, exp) {
            (None, None) => {}
            (Some((pid, pval)), Some((oidx, oval))) => {
                let replaced_somewhere = sc.actions.iter().any(|a| matches!(a.prev, PrevUse::Replace(_)))
                    || matches!(fail, Some((_, FailKind::PanicAfterPrevReplaced)) | Some((_, FailKind::ErrAfterPrevReplaced)));
                if pval != oval || (U::TRACKED && !replaced_somewhere && produced.get(oidx) != Some(&pid)) {
                    return Err(Failure::new(
                        "c08:prev-output",
                        format!(
                            "call #{} saw previous output (id {}, val {}), expected output #{} (id {:?}, val {})",
                            i, pid, pval, oidx, produced.get(oidx), oval
                        ),
                    ));
                }
            }
            (got, exp) => {
                return Err(Failure::new(
                    "c08:prev-output",
                    format!("call #{} saw previous output {:?}, expected {:?} (output index, value)", i, got, exp),
                ));
            }
        }
    }

    let mut stats = Stats::default();
    match (result, fail) {
        (Ok(Ok(out)), None) => {
            // C08
            if out.len() != model.len() {
                return Err(Failure::new("c08:result-length", format!("result has {} elements, expected {}", out.len(), model.len())));
            }
            for (i, u) in out.iter().enumerate() {
                if u.val() != model[i] || (U::TRACKED && u.id() != produced[i]) {
                    return Err(Failure::new(
                        "c08:result-value",
                        format!("result[{}] = (id {}, val {}), expected (id {}, val {})", i, u.id(), u.val(), produced[i], model[i]),
                    ));
                }
            }
            if out.as_ptr() as usize != in_ptr || out.capacity() != in_cap {
                return Err(Failure::new(
                    "c08:not-in-place",
                    format!("result buffer {:#x} capacity {}, input buffer {:#x} capacity {}", out.as_ptr() as usize, out.capacity(), in_ptr, in_cap),
                ));
            }
            if freed_during {
                return Err(Failure::new("c08:not-in-place", "the input allocation was released during the conversion"));
            }
            let live = ledger_live();
            let expect_live: Vec<u64> = if U::TRACKED { produced.clone() } else { vec![] };
            let mut a = live.clone();
            a.sort();
            let mut b = expect_live.clone();
            b.sort();
            if a != b || ledger_zst_live() != if U::ZST_COUNTED { model.len() as i64 } else { 0 } {
                return Err(Failure::new(
                    "c08:ledger",
                    format!("after the conversion live values are {:?} (+{} zero-size), expected the {} outputs {:?}", a, ledger_zst_live(), model.len(), b),
                ));
            }
            drop(out);
            if tracked_alloc {
                match alloc_unwatch() {
                    Release::Released => {}
                    Release::NotReleased => {
                        return Err(Failure::new("c08:result-buffer-leaked", "dropping the result vector did not release the input's allocation"));
                    }
                    Release::WrongLayout(s, a) => {
                        return Err(Failure::new(
                            "c08:not-in-place",
                            format!(
                                "the result vector released the buffer as {} bytes (align {}), it was allocated as {} bytes (align {}): its capacity is not the input's",
                                s, a, in_cap * std::mem::size_of::<T>(), std::mem::align_of::<T>()
                            ),
                        ));
                    }
                }
            }
            stats.nontrivial08 = len >= 2
                && sc.actions.iter().any(|a| a.prev != PrevUse::Ignore)
                && sc.actions.windows(2).any(|w| !w[0].convert && w[1].convert)
                && model.len() >= 1;
            stats.labels.push("success");
        }
        (Ok(Ok(_)), Some(f)) => {
            return Err(Failure::new("c09:failure-swallowed", format!("the converter failed at {:?} but the conversion returned Ok", f)));
        }
        (Ok(Err(e)), Some((p, kind))) if kind == FailKind::ErrRet || kind == FailKind::ErrAfterPrevReplaced => {
            if e.0 != expected_payload(p, kind) {
                return Err(Failure::new("c09:wrong-error", format!("the caller received error {:?}, the converter returned {:#x}", e, expected_payload(p, kind))));
            }
            stats.labels.push(if kind == FailKind::ErrRet { "err_return" } else { "err_after_prev_replaced" });
        }
        (Err(payload), Some((p, kind))) if kind != FailKind::ErrRet && kind != FailKind::ErrAfterPrevReplaced => {
            let as_text = payload.downcast_ref::<String>().cloned().or_else(|| payload.downcast_ref::<&'static str>().map(|s| s.to_string()));
            match (payload.downcast_ref::<Payload>(), p % 3) {
                (Some(Payload(id)), 0) if *id == expected_payload(p, kind) => {}
                (Some(Payload(id)), _) => {
                    return Err(Failure::new("c09:wrong-payload", format!("panic payload {:#x}, the converter threw {:#x}", id, expected_payload(p, kind))));
                }
                (None, 1) if payload.is::<String>() && as_text.as_deref() == Some(payload_text(expected_payload(p, kind)).as_str()) => {}
                (None, 2) if payload.is::<&'static str>() && as_text.as_deref() == Some("the converter gives up (a string literal)") => {}
                (None, 1) | (None, 2) if as_text.is_some() => {
                    return Err(Failure::new(
                        "c09:wrong-payload",
                        format!("the caller received the panic message {:?}, the converter raised {:?}", as_text.unwrap_or_default(), if p % 3 == 1 { payload_text(expected_payload(p, kind)) } else { "the converter gives up (a string literal)".to_string() }),
                    ));
                }
                (None, _) => {
                    return Err(Failure::new(
                        "c09:payload-replaced",
                        format!("the caller did not receive the converter's panic payload (got: {})", panic_message(payload)),
                    ));
                }
            }
            stats.labels.push(match kind {
                FailKind::PanicBefore => "panic_before",
                FailKind::PanicAfterDrop => "panic_after_drop",
                FailKind::PanicAfterPrevModified => "panic_after_prev_modified",
                FailKind::PanicAfterPrevReplaced => "panic_after_prev_replaced",
                _ => "panic_after_build",
            });
        }
        (Ok(Err(e)), f) => {
            return Err(Failure::new("c09:unexpected-error", format!("conversion returned Err({:?}) with failure spec {:?}", e, f)));
        }
        (Err(payload), f) => {
            return Err(Failure::new(
                if f.is_some() { "c09:unexpected-panic" } else { "c08:unexpected-panic" },
                format!("conversion panicked ({}) with failure spec {:?}", panic_message(payload), f),
            ));
        }
    }
    // Ledger must be balanced now (C08: after dropping the result; C09: right after the failure)
    let errors = ledger_errors();
    if !errors.is_empty() {
        return Err(Failure::new(
            if fail.is_some() { "c09:double-drop" } else { "c08:double-drop" },
            format!("{:?}", errors),
        ));
    }
    let live = ledger_live();
    if !live.is_empty() || ledger_zst_live() != 0 {
        return Err(Failure::new(
            if fail.is_some() { "c09:leak" } else { "c08:leak" },
            format!(
                "values never dropped: ids {:?} (+{} zero-size); inputs were {:?}, outputs produced {:?}",
                live,
                ledger_zst_live(),
                in_ids,
                produced
            ),
        ));
    }
    if let Some((p, _)) = fail {
        if tracked_alloc {
            match alloc_unwatch() {
                Release::Released => {}
                Release::NotReleased => {
                    return Err(Failure::new("c09:buffer-leaked", format!("the vector's allocation ({:#x}, capacity {}) was not released after the failure at {}", in_ptr, in_cap, p)));
                }
                Release::WrongLayout(s, a) => {
                    return Err(Failure::new(
                        "c09:buffer-released-with-wrong-layout",
                        format!(
                            "after the failure at {} the vector's allocation of {} bytes (align {}, capacity {}) was released as {} bytes (align {})",
                            p, in_cap * std::mem::size_of::<T>(), std::mem::align_of::<T>(), in_cap, s, a
                        ),
                    ));
                }
            }
        }
        stats.nontrivial09 = p >= 1 && !model.is_empty() && p + 1 < len;
        if tracked_alloc {
            stats.labels.push("alloc_checked");
        }
    }
    Ok(stats)
}

macro_rules! dispatch_pair {
    ($idx:expr, $f:ident, $arg:expr) => {
        match $idx % PAIR_N {
            0 => $f::<TokA, TokA>($arg),
            1 => $f::<TokA, TokB>($arg),
            2 => $f::<String, Vec<u8>>($arg),
            3 => $f::<TokZ, TokZ2>($arg),
            4 => $f::<(), ()>($arg),
            5 => $f::<Big, Big2>($arg),
            6 => $f::<Al64, Al64b>($arg),
            7 => $f::<TokBox, TokBox2>($arg),
            8 => $f::<Plain8, TokA>($arg),
            9 => $f::<TokA, Plain8>($arg),
            10 => $f::<Plain8, Plain8b>($arg),
            11 => $f::<Huge2K, Huge2Kb>($arg),
            12 => $f::<Al256, Al256b>($arg),
            _ => $f::<Huge5K, Huge5Kb>($arg),
        }
    };
}
pub const PAIR_N: u8 = 14;
pub const PAIR_NAMES: [&str; 14] = [
    "pair_TokA_TokA", "pair_TokA_TokB", "pair_String_VecU8", "pair_zst_drop", "pair_unit", "pair_big", "pair_align64",
    "pair_box", "pair_plain_to_droppable", "pair_droppable_to_plain", "pair_plain_to_plain", "pair_2k", "pair_align256", "pair_5k",
];

pub fn check_scenario(sc: &Scenario) -> Result<Stats, Failure> {
    let mut s = dispatch_pair!(sc.pair, run_pair, sc)?;
    s.labels.push(PAIR_NAMES[(sc.pair % PAIR_N) as usize]);
    if sc.in_unwind {
        s.labels.push("called_from_destructor_during_unwinding");
    }
    match sc.actions.len() {
        0 => s.labels.push("len0"),
        1 => s.labels.push("len1"),
        _ => {}
    }
    Ok(s)
}

pub fn action_strategy() -> impl Strategy<Value = Action> {
    (
        prop::bool::weighted(0.6),
        prop_oneof![2 => Just(PrevUse::Ignore), 2 => Just(PrevUse::Read), 3 => (0u8..200).prop_map(PrevUse::Modify), 2 => (0u8..200).prop_map(PrevUse::Replace)],
    )
        .prop_map(|(convert, prev)| Action { convert, prev })
}

pub fn actions_strategy() -> impl Strategy<Value = Vec<Action>> {
    prop_oneof![
        1 => Just(vec![]),
        1 => prop::collection::vec(action_strategy(), 1..2),
        12 => prop::collection::vec(action_strategy(), 2..40),
        1 => prop::collection::vec(action_strategy(), 40..80),
        // long vectors (above 64 and above 1024 elements), rarely
        1 => prop::collection::vec(action_strategy(), 80..200).prop_flat_map(|v| (Just(v), prop_oneof![6 => 1usize..12, 1 => 25usize..60])).prop_map(|(v, times)| {
            let mut out = Vec::with_capacity(v.len() * times);
            for _ in 0..times {
                out.extend(v.iter().copied());
            }
            out
        }),
    ]
}

pub fn scenario_strategy(with_failure: bool) -> impl Strategy<Value = Scenario> {
    (
        0u8..PAIR_N,
        prop_oneof![20 => 0u16..9, 1 => 1000u16..6000],
        actions_strategy(),
        any::<bool>(),
        prop::bool::weighted(0.1),
        (any::<u16>(), prop_oneof![
            Just(FailKind::ErrRet),
            Just(FailKind::PanicBefore),
            Just(FailKind::PanicAfterDrop),
            Just(FailKind::PanicAfterBuild),
            Just(FailKind::PanicAfterPrevModified),
            Just(FailKind::PanicAfterPrevReplaced),
            Just(FailKind::ErrAfterPrevReplaced)
        ]),
    )
        .prop_map(move |(pair, spare, actions, try_entry, in_unwind, failure)| Scenario {
            pair,
            spare,
            actions,
            try_entry,
            failure: if with_failure { Some(failure) } else { None },
            in_unwind,
        })
}

// ---------------------------------------------------------------------------------------------
// C10

#[derive(Clone, Debug, Serialize, Deserialize, PartialEq, Eq, Hash)]
pub struct MismatchCase {
    pub from: u8,
    pub to: u8,
    pub len: u8,
    pub spare: u16,
    pub try_entry: bool,
    /// request the conversion from a destructor that runs while the thread is unwinding
    #[serde(default)]
    pub unwinding: bool,
}

thread_local! {
    static C10_CALLS: Cell<usize> = const { Cell::new(0) };
}

fn run_mismatch<T: Elem, U: Elem>(case: &MismatchCase) -> Result<Stats, Failure> {
    ledger_reset();
    C10_CALLS.with(|c| c.set(0));
    let len = case.len as usize;
    let mut input: Vec<T> = Vec::with_capacity(len + case.spare as usize);
    for i in 0..len {
        input.push(T::make(77 + i as u32));
    }
    let ids: Vec<u64> = input.iter().map(|t| t.id()).collect();
    let do_it = move || catch_unwind(AssertUnwindSafe(|| {
        if case.try_entry {
            try_convert_vec_in_place::<T, U, _, ErrTok>(input, |t, _| {
                C10_CALLS.with(|c| c.set(c.get() + 1));
                drop(t);
                Err(ErrTok(1))
            })
            .map(|v| v.len())
            .map_err(|_| ())
        } else {
            // the converter fails on its first call so that no reinterpreted element is ever written
            Ok(convert_vec_in_place::<T, U, _>(input, |t, _| {
                C10_CALLS.with(|c| c.set(c.get() + 1));
                drop(t);
                VecElementConversionResult::Abandonned
            })
            .len())
        }
    }));
    let res = if case.unwinding {
        // a flush-on-drop guard running during an unrelated panic
        struct Guard<F: FnOnce() -> std::thread::Result<Result<usize, ()>>>(Option<F>, std::rc::Rc<std::cell::RefCell<Option<std::thread::Result<Result<usize, ()>>>>>);
        impl<F: FnOnce() -> std::thread::Result<Result<usize, ()>>> Drop for Guard<F> {
            fn drop(&mut self) {
                if let Some(f) = self.0.take() {
                    *self.1.borrow_mut() = Some(f());
                }
            }
        }
        let slot = std::rc::Rc::new(std::cell::RefCell::new(None));
        let slot2 = slot.clone();
        let _ = catch_unwind(AssertUnwindSafe(move || {
            let _g = Guard(Some(do_it), slot2);
            panic_any(Payload(0x0E7E));
        }));
        let r = slot.borrow_mut().take();
        match r {
            Some(r) => r,
            None => return Err(Failure::new("harness", "the guard did not run")),
        }
    } else {
        do_it()
    };
    let calls = C10_CALLS.with(|c| c.get());
    let what = format!(
        "{} (size {}, align {}) -> {} (size {}, align {}), len {}",
        std::any::type_name::<T>(),
        std::mem::size_of::<T>(),
        std::mem::align_of::<T>(),
        std::any::type_name::<U>(),
        std::mem::size_of::<U>(),
        std::mem::align_of::<U>(),
        len
    );
    if calls != 0 {
        return Err(Failure::new("c10:converter-called", format!("{}: the converter was called {} time(s)", what, calls)));
    }
    if res.is_ok() {
        return Err(Failure::new("c10:not-refused", format!("{}: the conversion did not panic ({:?})", what, res)));
    }
    let errors = ledger_errors();
    if !errors.is_empty() {
        return Err(Failure::new("c10:double-drop", format!("{}: {:?}", what, errors)));
    }
    if !ledger_live().is_empty() || ledger_zst_live() != 0 {
        return Err(Failure::new(
            "c10:leak",
            format!("{}: input elements never dropped: {:?} (+{} zero-size) of {:?}", what, ledger_live(), ledger_zst_live(), ids),
        ));
    }
    let mut s = Stats::default();
    let one_dim = (std::mem::size_of::<T>() == std::mem::size_of::<U>()) != (std::mem::align_of::<T>() == std::mem::align_of::<U>());
    s.nontrivial08 = len >= 1 && one_dim;
    if std::mem::size_of::<T>() == std::mem::size_of::<U>() {
        s.labels.push("same_size_diff_align");
    } else if std::mem::align_of::<T>() == std::mem::align_of::<U>() {
        s.labels.push("same_align_diff_size");
    } else {
        s.labels.push("both_differ");
    }
    if std::mem::size_of::<T>() == 0 || std::mem::size_of::<U>() == 0 {
        s.labels.push("zst_vs_sized");
    }
    if len == 0 {
        s.labels.push("len0");
    }
    Ok(s)
}

macro_rules! mm_inner {
    ($t:ty, $to:expr, $case:expr) => {
        match $to {
            0 => run_mismatch::<$t, M4_4>($case),
            1 => run_mismatch::<$t, M8_4>($case),
            2 => run_mismatch::<$t, M8_8>($case),
            3 => run_mismatch::<$t, M16_8>($case),
            4 => run_mismatch::<$t, M16_16>($case),
            5 => run_mismatch::<$t, M4_2>($case),
            6 => run_mismatch::<$t, M8_1>($case),
            7 => run_mismatch::<$t, MZ1>($case),
            8 => run_mismatch::<$t, MZ8>($case),
            9 => run_mismatch::<$t, M260_4>($case),
            10 => run_mismatch::<$t, M264_8>($case),
            11 => run_mismatch::<$t, M520_8>($case),
            _ => run_mismatch::<$t, M65544_8>($case),
        }
    };
}
pub const MM_N: u8 = 13;

pub fn check_mismatch(case: &MismatchCase) -> Result<Stats, Failure> {
    let from = case.from % MM_N;
    let mut to = case.to % MM_N;
    if to == from {
        to = (to + 1) % MM_N;
    }
    match from {
        0 => mm_inner!(M4_4, to, case),
        1 => mm_inner!(M8_4, to, case),
        2 => mm_inner!(M8_8, to, case),
        3 => mm_inner!(M16_8, to, case),
        4 => mm_inner!(M16_16, to, case),
        5 => mm_inner!(M4_2, to, case),
        6 => mm_inner!(M8_1, to, case),
        7 => mm_inner!(MZ1, to, case),
        8 => mm_inner!(MZ8, to, case),
        9 => mm_inner!(M260_4, to, case),
        10 => mm_inner!(M264_8, to, case),
        11 => mm_inner!(M520_8, to, case),
        _ => mm_inner!(M65544_8, to, case),
    }
}

// ---------------------------------------------------------------------------------------------

pub fn info_of(s: Stats, c09: bool) -> CaseInfo {
    CaseInfo {
        nontrivial: if c09 { s.nontrivial09 } else { s.nontrivial08 },
        labels: s.labels,
        counters: vec![],
    }
}

/// Exhaustive enumeration: all lengths <= max_len, all convert/abandon masks, and (C09) every failure
/// position x kind x entry point; previous-output use fixed per element index.
pub fn enumerate(prop: &str, max_len: usize) -> (Outcome, u64) {
    let mut o = Outcome::default();
    let mut distinct = std::collections::HashSet::new();
    let mut total = 0u64;
    let c09 = prop == "C09";
    for pair in 0..PAIR_N {
        for len in 0..=max_len {
            for mask in 0..(1u32 << len) {
                let actions: Vec<Action> = (0..len)
                    .map(|i| Action {
                        convert: (mask >> i) & 1 == 1,
                        prev: match (i + mask as usize) % 4 {
                            0 => PrevUse::Modify((i * 5) as u8),
                            1 => PrevUse::Read,
                            2 => PrevUse::Replace((i * 3) as u8),
                            _ => PrevUse::Ignore,
                        },
                    })
                    .collect();
                let mut scenarios = vec![];
                if c09 {
                    for p in 0..len {
                        // the mask beyond the failure position is irrelevant
                        if mask >> (p + 1) != 0 {
                            continue;
                        }
                        for (try_entry, kind) in [
                            (true, FailKind::ErrRet),
                            (true, FailKind::PanicBefore),
                            (true, FailKind::PanicAfterDrop),
                            (true, FailKind::PanicAfterBuild),
                            (false, FailKind::PanicBefore),
                            (false, FailKind::PanicAfterDrop),
                            (false, FailKind::PanicAfterBuild),
                            (true, FailKind::PanicAfterPrevModified),
                            (false, FailKind::PanicAfterPrevModified),
                            (true, FailKind::PanicAfterPrevReplaced),
                            (false, FailKind::PanicAfterPrevReplaced),
                            (true, FailKind::ErrAfterPrevReplaced),
                        ] {
                            // selector that maps to p
                            let sel = (((p as u32) << 16) / len as u32 + 1).min(65535) as u16;
                            let mut sel = sel;
                            while pick(sel, len) > p {
                                sel -= 1;
                            }
                            while pick(sel, len) < p {
                                sel += 1;
                            }
                            scenarios.push(Scenario { pair, spare: (len % 3) as u16, actions: actions.clone(), try_entry, failure: Some((sel, kind)), in_unwind: (len + sel as usize) % 5 == 4 });
                        }
                    }
                } else {
                    for try_entry in [false, true] {
                        scenarios.push(Scenario { pair, spare: (len % 3) as u16, actions: actions.clone(), try_entry, failure: None, in_unwind: len % 5 == 4 });
                    }
                }
                for sc in scenarios {
                    total += 1;
                    side_note(&sc);
                    match check_scenario(&sc) {
                        Ok(s) => {
                            o.evaluations += 1;
                            let info = info_of(s, c09);
                            for l in &info.labels {
                                *o.classes.entry(format!("enum:{}", l)).or_default() += 1;
                            }
                            if info.nontrivial {
                                o.nontrivial += 1;
                                if distinct.insert(hash_of(&sc)) && o.samples.len() < 2 {
                                    o.samples.push(serde_json::to_value(&sc).unwrap());
                                }
                            }
                        }
                        Err(f) => {
                            o.evaluations += 1;
                            if c09 && f.signature.starts_with("c08:") {
                                *o.classes.entry("enum:skipped_c08_failure".to_string()).or_default() += 1;
                            } else if o.failures.len() < 3 {
                                o.failures.push((serde_json::to_value(&sc).unwrap(), f));
                            }
                        }
                    }
                    if o.failures.len() >= 3 {
                        // enough to report; the remaining type pairs may well crash the process
                        o.distinct_nontrivial = distinct.len() as u64;
                        return (o, total);
                    }
                }
            }
        }
    }
    o.distinct_nontrivial = distinct.len() as u64;
    (o, total)
}

pub fn enumerate_c10(max_len: usize) -> Outcome {
    let mut o = Outcome::default();
    let mut distinct = std::collections::HashSet::new();
    for from in 0..MM_N {
        for to in 0..MM_N {
            if from == to {
                continue;
            }
            for len in 0..=max_len {
                for try_entry in [false, true] {
                    let case = MismatchCase { from, to, len: len as u8, spare: (len % 2) as u16, try_entry, unwinding: (from + to) as usize % 3 == len % 3 };
                    o.evaluations += 1;
                    side_note(&case);
                    match check_mismatch(&case) {
                        Ok(s) => {
                            let info = info_of(s, false);
                            for l in &info.labels {
                                *o.classes.entry(format!("enum:{}", l)).or_default() += 1;
                            }
                            if info.nontrivial {
                                o.nontrivial += 1;
                                if distinct.insert(hash_of(&case)) && o.samples.len() < 2 {
                                    o.samples.push(serde_json::to_value(&case).unwrap());
                                }
                            }
                        }
                        Err(f) => {
                            if o.failures.len() < 3 {
                                o.failures.push((serde_json::to_value(&case).unwrap(), f));
                            }
                        }
                    }
                }
            }
        }
    }
    o.distinct_nontrivial = distinct.len() as u64;
    o
}

