//! E4 binary, see the library.
use std::{fs, process::ExitCode};

use e4_vecconv::*;
use proptest::prelude::*;
use serde_json::Value;
use vcore::*;

fn main() -> ExitCode {
    let args: Vec<String> = std::env::args().collect();
    silence_panics();
    if args.len() == 6 && args[1] == "run" {
        let prop = args[2].as_str();
        let cases: u64 = args[3].parse().expect("cases");
        let max_len: usize = args[4].parse().expect("enum max len");
        let seed = env_seed();
        let threads = env_threads();
        let mut split = (0u64, 0u64);
        let (mut outcome, rule, exhaustive_note) = match prop {
            "C08" => {
                let (mut e, n) = enumerate("C08", max_len);
                let cases = if e.failures.is_empty() { cases } else { 0 };
                let r = run_prop(seed, cases, threads, || scenario_strategy(false), |sc| check_scenario(sc).map(|s| info_of(s, false)));
                split = (e.distinct_nontrivial, r.distinct_nontrivial);
                e.merge(r);
                (e,
                 "scenarios = (element type pair of 11, spare capacity 0..8, per element convert/abandon + previous-output use \
                  {ignore, read, modify}, entry point) against a reference filter_map model threading the previous output: \
                  converter log (each input once, in order, right previous output), result values and ids, same buffer pointer and \
                  capacity, allocation not released, ledger of created/destroyed values. non-trivial: length >= 2, an abandoned \
                  element directly before a converted one, a converter that uses the previous output, >= 1 output; distinct by hash of the scenario".to_string(),
                 format!("exhaustive sub-space: all lengths <= {} x all convert/abandon masks x 2 entry points x 11 type pairs = {} scenarios", max_len, n))
            }
            "C09" => {
                let (mut e, n) = enumerate("C09", max_len);
                let cases = if e.failures.is_empty() { cases } else { 0 };
                let r = run_prop(seed, cases, threads, || scenario_strategy(true), |sc| match check_scenario(sc) {
                    Ok(s) => Ok(info_of(s, true)),
                    // what the converter is given and what a successful conversion returns is C08's business
                    Err(f) if f.signature.starts_with("c08:") => Ok(CaseInfo { nontrivial: false, labels: vec!["skipped_c08_failure"], counters: vec![] }),
                    Err(f) => Err(f),
                });
                split = (e.distinct_nontrivial, r.distinct_nontrivial);
                e.merge(r);
                (e,
                 "scenarios of C08 plus a failure at a generated position of kind {Err return (try_ entry), panic before touching the \
                  input, panic after dropping the input, panic after building the output, panic after modifying the previous output}: ledger empty afterwards without double \
                  retirement, the watched allocation of the vector released, converter called exactly position+1 times, the caller \
                  receives the very Err value / panic payload. non-trivial: failure position >= 1 with >= 1 output already produced \
                  and >= 1 input not yet consumed; distinct by hash of the scenario".to_string(),
                 format!("fault enumeration: all lengths <= {} x every failure position x 12 (kind, entry point) combinations x all masks of the preceding elements x 11 type pairs = {} scenarios", max_len, n))
            }
            "C10" => {
                let mut e = enumerate_c10(max_len.max(4));
                let r = run_prop(
                    seed,
                    cases,
                    threads,
                    || {
                        (0u8..MM_N, 0u8..MM_N, prop_oneof![2 => Just(0u8), 2 => Just(1u8), 6 => 2u8..40], prop_oneof![8 => 0u16..4, 1 => 1000u16..6000], any::<bool>(), prop::bool::weighted(0.2))
                            .prop_map(|(from, to, len, spare, try_entry, unwinding)| MismatchCase { from, to, len, spare, try_entry, unwinding })
                    },
                    |c| check_mismatch(c).map(|s| info_of(s, false)),
                );
                split = (e.distinct_nontrivial, r.distinct_nontrivial);
                e.merge(r);
                (e,
                 "ordered pairs of 9 element types covering sizes {0,4,8,16} x alignments {1,2,4,8,16} (zero-size vs sized, same size \
                  with different alignment, same alignment with different size), lengths 0..40, both entry points: the call must panic, \
                  the converter must not be called, every input element must be dropped exactly once. non-trivial: length >= 1 and the \
                  pair differs in exactly one of size / alignment; distinct by hash of the case".to_string(),
                 format!("exhaustive sub-space: all 72 ordered pairs x lengths 0..={} x 2 entry points", max_len.max(4)))
            }
            _ => return ExitCode::from(2),
        };
        outcome.failures.truncate(3);
        let mut json = outcome.to_json(prop, &rule);
        json["exhaustive_subspaces"] = Value::String(exhaustive_note);
        json["distinct_nontrivial_enum"] = Value::from(split.0);
        json["distinct_nontrivial_random"] = Value::from(split.1);
        fs::write(&args[5], serde_json::to_string_pretty(&json).unwrap()).expect("write");
        return ExitCode::SUCCESS;
    }
    if args.len() == 4 && args[1] == "replay" {
        let text = fs::read_to_string(&args[3]).expect("read");
        let v: Value = serde_json::from_str(&text).expect("json");
        let case = v.get("case").cloned().unwrap_or(v);
        let res = if args[2] == "C10" {
            serde_json::from_value::<MismatchCase>(case).map_err(|e| Failure::new("bad-replay-file", e.to_string())).and_then(|c| check_mismatch(&c).map(|_| ()))
        } else {
            serde_json::from_value::<Scenario>(case).map_err(|e| Failure::new("bad-replay-file", e.to_string())).and_then(|c| check_scenario(&c).map(|_| ()))
        };
        return match res {
            Ok(()) => {
                println!("replay: property {} holds on this case", args[2]);
                ExitCode::SUCCESS
            }
            Err(f) => {
                println!("replay: property {} VIOLATED [{}]: {}", args[2], f.signature, f.message);
                ExitCode::from(1)
            }
        };
    }
    eprintln!("usage: e4_vecconv run <C08|C09|C10> <cases> <enum max len> <result.json> | replay <PROP> <case.json>");
    ExitCode::from(2)
}
