//! Instrumented element types, value ledger and allocation watch for the vector conversion checks.

use std::{
    alloc::{GlobalAlloc, Layout, System},
    cell::{Cell, RefCell},
};

// ---------------------------------------------------------------------------------------------
// Ledger of created / destroyed values (per thread)

#[derive(Default)]
struct Ledger {
    next: u64,
    live: Vec<u64>,
    /// type each live value was created as
    kinds: Vec<&'static str>,
    errors: Vec<String>,
}

thread_local! {
    static LEDGER: RefCell<Ledger> = RefCell::new(Ledger::default());
    static ZST_LIVE: Cell<i64> = const { Cell::new(0) };
    static WATCH: Cell<usize> = const { Cell::new(0) };
    static WATCH_LAYOUT: Cell<(usize, usize)> = const { Cell::new((0, 0)) };
    /// 0: not released, 1: released with the layout it was allocated with, 2: released with another layout
    static FREED: Cell<u8> = const { Cell::new(0) };
    static FREED_LAYOUT: Cell<(usize, usize)> = const { Cell::new((0, 0)) };
}

pub fn ledger_reset() {
    LEDGER.with(|l| {
        let mut l = l.borrow_mut();
        l.next = 1;
        l.live.clear();
        l.kinds.clear();
        l.errors.clear();
    });
    ZST_LIVE.with(|z| z.set(0));
}

fn ledger_new(kind: &'static str) -> u64 {
    LEDGER.with(|l| {
        let mut l = l.borrow_mut();
        let id = l.next;
        l.next += 1;
        l.live.push(id);
        l.kinds.push(kind);
        id
    })
}

fn ledger_retire(id: u64, what: &str) {
    let _ = LEDGER.try_with(|l| {
        if let Ok(mut l) = l.try_borrow_mut() {
            if let Some(pos) = l.live.iter().position(|&x| x == id) {
                l.live.swap_remove(pos);
                let kind = l.kinds.swap_remove(pos);
                if kind != what && l.errors.len() < 16 {
                    l.errors.push(format!("value #{} created as {} dropped by the destructor of {}", id, kind, what));
                }
            } else if l.errors.len() < 16 {
                l.errors.push(format!("{} with id {} dropped although it is not live (double drop or invented value)", what, id));
            }
        }
    });
}

pub fn ledger_live() -> Vec<u64> {
    LEDGER.with(|l| l.borrow().live.clone())
}

pub fn ledger_errors() -> Vec<String> {
    LEDGER.with(|l| l.borrow().errors.clone())
}

pub fn ledger_zst_live() -> i64 {
    ZST_LIVE.with(|z| z.get())
}

// ---------------------------------------------------------------------------------------------
// Allocation watch

pub struct WatchingAlloc;

unsafe impl GlobalAlloc for WatchingAlloc {
    unsafe fn alloc(&self, layout: Layout) -> *mut u8 {
        System.alloc(layout)
    }
    unsafe fn dealloc(&self, ptr: *mut u8, layout: Layout) {
        note_release(ptr, layout);
        System.dealloc(ptr, layout)
    }
    unsafe fn realloc(&self, ptr: *mut u8, layout: Layout, new_size: usize) -> *mut u8 {
        note_release(ptr, layout);
        System.realloc(ptr, layout, new_size)
    }
}

fn note_release(ptr: *mut u8, layout: Layout) {
    let _ = WATCH.try_with(|w| {
        if w.get() != 0 && w.get() == ptr as usize {
            let expected = WATCH_LAYOUT.try_with(|l| l.get()).unwrap_or((0, 0));
            let got = (layout.size(), layout.align());
            let _ = FREED_LAYOUT.try_with(|l| l.set(got));
            let _ = FREED.try_with(|f| f.set(if expected == got { 1 } else { 2 }));
            w.set(0);
        }
    });
}

#[global_allocator]
static GLOBAL: WatchingAlloc = WatchingAlloc;

/// Watches the allocation at `ptr`, which was made with (size, align).
pub fn alloc_watch(ptr: usize, size: usize, align: usize) {
    FREED.with(|f| f.set(0));
    WATCH_LAYOUT.with(|l| l.set((size, align)));
    WATCH.with(|w| w.set(ptr));
}

#[derive(Clone, Copy, Debug, PartialEq, Eq)]
pub enum Release {
    NotReleased,
    Released,
    /// released (or reallocated) with a layout other than the one it was allocated with: (size, align)
    WrongLayout(usize, usize),
}

/// State of the watched allocation (watching continues if it was not released).
pub fn alloc_state() -> Release {
    match FREED.with(|f| f.get()) {
        0 => Release::NotReleased,
        1 => Release::Released,
        _ => {
            let l = FREED_LAYOUT.with(|l| l.get());
            Release::WrongLayout(l.0, l.1)
        }
    }
}

pub fn alloc_unwatch() -> Release {
    let s = alloc_state();
    WATCH.with(|w| w.set(0));
    s
}

// ---------------------------------------------------------------------------------------------
// Element types

pub trait Elem: Sized + 'static {
    /// The type registers its values in the ledger under unique ids.
    const TRACKED: bool;
    /// Zero-size type with a counted `Drop`.
    const ZST_COUNTED: bool = false;
    /// Whether `val()` gives back what `make` / `set_val` stored.
    const STORES_VAL: bool = true;
    fn make(val: u32) -> Self;
    fn id(&self) -> u64;
    fn val(&self) -> u32;
    fn set_val(&mut self, v: u32);
}

macro_rules! token {
    ($name:ident, $(#[$attr:meta])* { $($extra:ident : $ety:ty = $einit:expr),* }) => {
        $(#[$attr])*
        pub struct $name {
            id: u32,
            val: u32,
            $($extra: $ety,)*
        }
        impl Elem for $name {
            const TRACKED: bool = true;
            fn make(val: u32) -> Self {
                $name { id: ledger_new(stringify!($name)) as u32, val, $($extra: $einit,)* }
            }
            fn id(&self) -> u64 { self.id as u64 }
            fn val(&self) -> u32 { self.val }
            fn set_val(&mut self, v: u32) { self.val = v; }
        }
        impl Drop for $name {
            fn drop(&mut self) {
                ledger_retire(self.id as u64, stringify!($name));
            }
        }
    };
}

token!(TokA, {});
token!(TokB, {});
token!(Big, { pad: [u64; 32] = [0xA5A5A5A5A5A5A5A5; 32] });
token!(Big2, { pad: [u64; 32] = [0x5A5A5A5A5A5A5A5A; 32] });
token!(Al64, #[repr(align(64))] {});
token!(Al64b, #[repr(align(64))] {});
token!(Huge2K, { pad: [u64; 255] = [0x2048204820482048; 255] });
token!(Huge2Kb, { pad: [u64; 255] = [0x8402840284028402; 255] });
// above one page
token!(Huge5K, { pad: [u64; 640] = [0x5120512051205120; 640] });
token!(Huge5Kb, { pad: [u64; 640] = [0x0215021502150215; 640] });
token!(Al256, #[repr(align(256))] {});
token!(Al256b, #[repr(align(256))] {});
token!(TokBox, { b: Box<u64> = Box::new(0xB0B0) });
token!(TokBox2, { b: Box<u64> = Box::new(0xB1B1) });

/// Plain data without drop glue, same layout as TokA.
#[derive(Clone, Copy)]
pub struct Plain8 {
    val: u32,
    _tag: u32,
}
impl Elem for Plain8 {
    const TRACKED: bool = false;
    fn make(val: u32) -> Self {
        Plain8 { val, _tag: 0x7A7A }
    }
    fn id(&self) -> u64 {
        0
    }
    fn val(&self) -> u32 {
        self.val
    }
    fn set_val(&mut self, v: u32) {
        self.val = v;
    }
}

/// Another plain type with the layout of Plain8 (no drop glue on either side of a conversion).
#[derive(Clone, Copy)]
pub struct Plain8b {
    _tag: u32,
    val: u32,
}
impl Elem for Plain8b {
    const TRACKED: bool = false;
    fn make(val: u32) -> Self {
        Plain8b { val, _tag: 0x5B5B }
    }
    fn id(&self) -> u64 {
        0
    }
    fn val(&self) -> u32 {
        self.val
    }
    fn set_val(&mut self, v: u32) {
        self.val = v;
    }
}

impl Elem for String {
    const TRACKED: bool = false;
    fn make(val: u32) -> Self {
        format!("{}", val)
    }
    fn id(&self) -> u64 {
        0
    }
    fn val(&self) -> u32 {
        self.parse().unwrap_or(u32::MAX)
    }
    fn set_val(&mut self, v: u32) {
        *self = format!("{}", v);
    }
}

impl Elem for Vec<u8> {
    const TRACKED: bool = false;
    fn make(val: u32) -> Self {
        val.to_le_bytes().to_vec()
    }
    fn id(&self) -> u64 {
        0
    }
    fn val(&self) -> u32 {
        if self.len() == 4 {
            u32::from_le_bytes([self[0], self[1], self[2], self[3]])
        } else {
            u32::MAX
        }
    }
    fn set_val(&mut self, v: u32) {
        self.clear();
        self.extend_from_slice(&v.to_le_bytes());
    }
}

impl Elem for () {
    const TRACKED: bool = false;
    const STORES_VAL: bool = false;
    fn make(_val: u32) -> Self {}
    fn id(&self) -> u64 {
        0
    }
    fn val(&self) -> u32 {
        0
    }
    fn set_val(&mut self, _v: u32) {}
}

macro_rules! zst_token {
    ($name:ident $(, #[$attr:meta])*) => {
        $(#[$attr])*
        pub struct $name;
        impl Elem for $name {
            const TRACKED: bool = false;
            const ZST_COUNTED: bool = true;
            const STORES_VAL: bool = false;
            fn make(_val: u32) -> Self {
                ZST_LIVE.with(|z| z.set(z.get() + 1));
                $name
            }
            fn id(&self) -> u64 { 0 }
            fn val(&self) -> u32 { 0 }
            fn set_val(&mut self, _v: u32) {}
        }
        impl Drop for $name {
            fn drop(&mut self) {
                let _ = ZST_LIVE.try_with(|z| z.set(z.get() - 1));
            }
        }
    };
}

zst_token!(TokZ);
zst_token!(TokZ2);
zst_token!(MZ1);
zst_token!(MZ8, #[repr(align(8))]);

// Types for the mismatch matrix (C10): name = M<size>_<align>

macro_rules! mtoken {
    ($name:ident, $(#[$attr:meta])* { $($extra:ident : $ety:ty = $einit:expr),* }) => {
        $(#[$attr])*
        pub struct $name {
            id: [u8; 4],
            $($extra: $ety,)*
        }
        impl Elem for $name {
            const TRACKED: bool = true;
            const STORES_VAL: bool = false;
            fn make(_val: u32) -> Self {
                $name { id: (ledger_new(stringify!($name)) as u32).to_le_bytes(), $($extra: $einit,)* }
            }
            fn id(&self) -> u64 { u32::from_le_bytes(self.id) as u64 }
            fn val(&self) -> u32 { 0 }
            fn set_val(&mut self, _v: u32) {}
        }
        impl Drop for $name {
            fn drop(&mut self) {
                ledger_retire(u32::from_le_bytes(self.id) as u64, stringify!($name));
            }
        }
    };
}

mtoken!(M4_4, #[repr(C, align(4))] {});
mtoken!(M8_4, #[repr(C, align(4))] { pad: [u8; 4] = [1; 4] });
mtoken!(M8_8, #[repr(C, align(8))] { pad: [u8; 4] = [2; 4] });
mtoken!(M16_8, #[repr(C, align(8))] { pad: [u8; 12] = [3; 12] });
mtoken!(M16_16, #[repr(C, align(16))] { pad: [u8; 12] = [4; 12] });
mtoken!(M4_2, #[repr(C, align(2))] {});
mtoken!(M8_1, #[repr(C)] { pad: [u8; 4] = [5; 4] });
// sizes that differ from a smaller type's by a multiple of 256, same alignment
mtoken!(M260_4, #[repr(C, align(4))] { pad: [u8; 256] = [6; 256] });
mtoken!(M264_8, #[repr(C, align(8))] { pad: [u8; 260] = [7; 260] });
mtoken!(M520_8, #[repr(C, align(8))] { pad: [u8; 516] = [8; 516] });
mtoken!(M65544_8, #[repr(C, align(8))] { pad: [u8; 65540] = [9; 65540] });

#[cfg(test)]
mod tests {
    use super::*;
    #[test]
    fn layouts() {
        use std::mem::{align_of, size_of};
        assert_eq!((size_of::<M4_4>(), align_of::<M4_4>()), (4, 4));
        assert_eq!((size_of::<M8_4>(), align_of::<M8_4>()), (8, 4));
        assert_eq!((size_of::<M8_8>(), align_of::<M8_8>()), (8, 8));
        assert_eq!((size_of::<M16_8>(), align_of::<M16_8>()), (16, 8));
        assert_eq!((size_of::<M16_16>(), align_of::<M16_16>()), (16, 16));
        assert_eq!((size_of::<M4_2>(), align_of::<M4_2>()), (4, 2));
        assert_eq!((size_of::<M8_1>(), align_of::<M8_1>()), (8, 1));
        assert_eq!((size_of::<M260_4>(), align_of::<M260_4>()), (260, 4));
        assert_eq!((size_of::<M264_8>(), align_of::<M264_8>()), (264, 8));
        assert_eq!((size_of::<M520_8>(), align_of::<M520_8>()), (520, 8));
        assert_eq!((size_of::<M65544_8>(), align_of::<M65544_8>()), (65544, 8));
        assert_eq!((size_of::<MZ1>(), align_of::<MZ1>()), (0, 1));
        assert_eq!((size_of::<MZ8>(), align_of::<MZ8>()), (0, 8));
        assert_eq!((size_of::<TokA>(), align_of::<TokA>()), (size_of::<TokB>(), align_of::<TokB>()));
        assert_eq!((size_of::<TokA>(), align_of::<TokA>()), (size_of::<Plain8>(), align_of::<Plain8>()));
        assert_eq!((size_of::<String>(), align_of::<String>()), (size_of::<Vec<u8>>(), align_of::<Vec<u8>>()));
        assert_eq!((size_of::<Big>(), align_of::<Big>()), (size_of::<Big2>(), align_of::<Big2>()));
        assert_eq!((size_of::<Al64>(), align_of::<Al64>()), (size_of::<Al64b>(), align_of::<Al64b>()));
        assert_eq!((size_of::<TokBox>(), align_of::<TokBox>()), (size_of::<TokBox2>(), align_of::<TokBox2>()));
    }
}
