//! see Cargo.toml
