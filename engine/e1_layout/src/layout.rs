//! C01, C02, C03(a), C13(a), C19, C20: checks over valid builder histories.

use std::{
    collections::BTreeMap,
    panic::{catch_unwind, AssertUnwindSafe},
};

use proptest::prelude::*;
use serde::{Deserialize, Serialize};
use serde_json::Value;
use truc::{
    generator::{
        config::GeneratorConfig,
        fragment::{clone::CloneImplGenerator, serde::SerdeImplGenerator, FragmentGenerator},
        generate,
    },
    record::{
        definition::{
            builder::{
                generic::{variant as gvariant, GenericRecordDefinitionBuilder},
                native::NativeRecordDefinitionBuilder,
            },
            convert::convert_record_definition,
            DatumId, RecordVariantId,
        },
        type_resolver::{HostTypeResolver, TypeInfo},
    },
};
use vcore::*;

const MAX_LEN: usize = 48;

pub fn replay(
    case: &Value,
    check: fn(&History) -> Result<CaseInfo, Failure>,
) -> Result<(), Failure> {
    let h: History = serde_json::from_value(case.clone())
        .map_err(|e| Failure::new("bad-replay-file", e.to_string()))?;
    check(&h).map(|_| ())
}

fn base_info(trace: &Trace) -> (Classes, CaseInfo) {
    let classes = classify(trace);
    let info = CaseInfo {
        nontrivial: false,
        labels: classes.labels(),
        counters: vec![("variants", classes.variants as u64)],
    };
    (classes, info)
}

fn skipped_panic() -> CaseInfo {
    CaseInfo {
        nontrivial: false,
        labels: vec!["skipped_builder_panicked"],
        counters: vec![],
    }
}

// ---------------------------------------------------------------------------------------------
// C01

fn overlap_in(list: &[DatumObs]) -> Option<(DatumObs, DatumObs)> {
    let mut nz: Vec<&DatumObs> = list.iter().filter(|d| d.size > 0).collect();
    nz.sort_by_key(|d| (d.offset, d.id));
    for w in nz.windows(2) {
        if w[0].offset + w[0].size > w[1].offset {
            return Some((w[0].clone(), w[1].clone()));
        }
    }
    None
}

pub fn check_c01(h: &History) -> Result<CaseInfo, Failure> {
    let (trace, def) = run_native(h);
    if trace.panicked.is_some() {
        return Ok(skipped_panic());
    }
    for cl in trace.closes.iter().filter(|c| c.created) {
        if let Some((a, b)) = overlap_in(&cl.list) {
            return Err(Failure::new(
                "overlap",
                format!(
                    "variant {} (closed with {:?}): data {}@{}+{} and {}@{}+{} share bytes",
                    cl.variant, cl.strat, a.name, a.offset, a.size, b.name, b.offset, b.size
                ),
            ));
        }
    }
    let def = def.expect("definition");
    for (v, list) in observe_definition(&def).iter().enumerate() {
        if let Some((a, b)) = overlap_in(list) {
            return Err(Failure::new(
                "overlap",
                format!(
                    "built definition, variant {}: data {}@{}+{} and {}@{}+{} share bytes",
                    v, a.name, a.offset, a.size, b.name, b.offset, b.size
                ),
            ));
        }
    }
    let (classes, mut info) = base_info(&trace);
    info.nontrivial = classes.ge3_variants && classes.gap_reused;
    Ok(info)
}

pub fn run_c01(seed: u64, cases: u64, threads: usize) -> (Outcome, String) {
    (
        run_prop(seed, cases, threads, || history_strategy(MAX_LEN), check_c01),
        "valid builder histories (add/remove/close, <=48 requests, shapes size=k*align with align up to 4096, one in ten with a size that is not a multiple of its alignment, ZST, \
         per-variant strategy mixture) run against the native builder; after every close and on the built \
         definition all non-zero-size data of the variant must be pairwise disjoint. non-trivial: >= 3 \
         variants and a datum placed below the previous variant's end (gap reused); distinct by hash of the history"
            .into(),
    )
}

// ---------------------------------------------------------------------------------------------
// C02

fn published_numbers(text: &str) -> Option<(usize, Vec<usize>)> {
    // tolerant scan: `MAX_SIZE: usize = N` and every `align(N)`
    let key = "MAX_SIZE: usize =";
    let pos = text.find(key)?;
    let rest = &text[pos + key.len()..];
    let num: String = rest
        .trim_start()
        .chars()
        .take_while(|c| c.is_ascii_digit())
        .collect();
    let max_size = num.parse().ok()?;
    let mut aligns = Vec::new();
    let mut s = text;
    while let Some(p) = s.find("align(") {
        let r = &s[p + 6..];
        let n: String = r.chars().take_while(|c| c.is_ascii_digit()).collect();
        if let Ok(n) = n.parse() {
            aligns.push(n);
        }
        s = r;
    }
    Some((max_size, aligns))
}

pub fn check_c02(h: &History) -> Result<CaseInfo, Failure> {
    let (trace, def) = run_native(h);
    if trace.panicked.is_some() {
        return Ok(skipped_panic());
    }
    let def = def.expect("definition");
    let mut lists: Vec<(String, &[DatumObs])> = Vec::new();
    for cl in trace.closes.iter().filter(|c| c.created) {
        lists.push((format!("after close of variant {} ({:?})", cl.variant, cl.strat), &cl.list));
    }
    let built = observe_definition(&def);
    for (v, l) in built.iter().enumerate() {
        lists.push((format!("built definition variant {}", v), l));
    }
    let max_size = catch_unwind(AssertUnwindSafe(|| def.max_size())).ok();
    let max_align = catch_unwind(AssertUnwindSafe(|| def.max_type_align())).ok();
    for (what, list) in &lists {
        let mut last: Option<&DatumObs> = None;
        for d in list.iter() {
            if d.offset % d.align != 0 {
                return Err(Failure::new(
                    "misaligned",
                    format!("{}: {} at offset {} is not aligned to {}", what, d.name, d.offset, d.align),
                ));
            }
            if let Some(ms) = max_size {
                if d.offset.checked_add(d.size).map_or(true, |e| e > ms) {
                    return Err(Failure::new(
                        "beyond-capacity",
                        format!("{}: {} at {}+{} exceeds max_size() = {}", what, d.name, d.offset, d.size, ms),
                    ));
                }
            }
            if let Some(ma) = max_align {
                if ma % d.align != 0 {
                    return Err(Failure::new(
                        "record-align",
                        format!("{}: max_type_align() = {} is not a multiple of {}'s alignment {}", what, ma, d.name, d.align),
                    ));
                }
            }
            if d.size > 0 {
                if let Some(l) = last {
                    if l.offset >= d.offset {
                        return Err(Failure::new(
                            "address-order",
                            format!(
                                "{}: non-zero-size data listed out of strictly increasing address order: {}@{} before {}@{}",
                                what, l.name, l.offset, d.name, d.offset
                            ),
                        ));
                    }
                }
                last = Some(d);
            }
        }
    }
    // Published constants in the generated text
    let mut counters = vec![];
    // generating the text is by far the most expensive step: done for one history in four
    let sampled = hash_of(h) % 4 == 0;
    if let (true, Some(ms), Some(ma)) = (sampled, max_size, max_align) {
        if let Ok(text) = catch_unwind(AssertUnwindSafe(|| generate(&def, &GeneratorConfig::default()))) {
            match published_numbers(&text) {
                Some((pub_size, pub_aligns)) if !pub_aligns.is_empty() => {
                    counters.push(("published_constants_checked", 1));
                    let n_records = def.variants().count() + 1;
                    if pub_aligns.len() >= n_records {
                        for list in &built {
                            for d in list {
                                if d.offset + d.size > pub_size {
                                    return Err(Failure::new(
                                        "beyond-published-capacity",
                                        format!("{}@{}+{} exceeds the published MAX_SIZE {}", d.name, d.offset, d.size, pub_size),
                                    ));
                                }
                                for a in &pub_aligns {
                                    if a % d.align != 0 {
                                        return Err(Failure::new(
                                            "published-align",
                                            format!("a generated record type has repr(align({})), not a multiple of {}'s alignment {}", a, d.name, d.align),
                                        ));
                                    }
                                }
                            }
                        }
                    }
                    let _ = (ms, ma);
                }
                _ => counters.push(("published_constants_unparsed", 1)),
            }
        }
    }
    let (classes, mut info) = base_info(&trace);
    info.counters.extend(counters);
    info.nontrivial = classes.ge3_variants && classes.distinct_aligns >= 2 && classes.middle_insertion;
    Ok(info)
}

pub fn run_c02(seed: u64, cases: u64, threads: usize) -> (Outcome, String) {
    (
        run_prop(seed, cases, threads, || history_strategy(MAX_LEN), check_c02),
        "valid builder histories as for C01; per variant after every close and on the built definition: \
         offset % align == 0 (ZST included), offset+size <= max_size() and <= the MAX_SIZE constant in the \
         generated text, max_type_align() and every emitted repr(align(N)) multiples of every datum alignment, \
         non-zero-size data listed in strictly increasing address order. non-trivial: >= 3 variants, >= 2 distinct \
         alignments and an insertion before a carried-over datum; distinct by hash of the history"
            .into(),
    )
}

// ---------------------------------------------------------------------------------------------
// C03 (a)

pub fn check_c03(h: &History) -> Result<CaseInfo, Failure> {
    let (trace, def) = run_native(h);
    if trace.panicked.is_some() {
        return Ok(skipped_panic());
    }
    let def = def.expect("definition");
    let mut fixed: BTreeMap<usize, (usize, usize)> = BTreeMap::new(); // id -> (offset, variant where placed)
    let mut comparisons = 0u64;
    for cl in trace.closes.iter() {
        for (&id, &(off, at)) in &fixed {
            comparisons += 1;
            let now = cl.all_offsets.get(id).copied();
            if now != Some(off) {
                return Err(Failure::new(
                    "datum-moved",
                    format!(
                        "datum id {} had offset {} when variant {} was closed and has offset {:?} after closing variant {} with {:?}",
                        id, off, at, now, cl.variant, cl.strat
                    ),
                ));
            }
        }
        for d in &cl.list {
            match fixed.get(&d.id) {
                None => {
                    fixed.insert(d.id, (d.offset, cl.variant));
                }
                Some(&(off, at)) => {
                    if off != d.offset {
                        return Err(Failure::new(
                            "datum-moved",
                            format!("datum {} placed at {} in variant {} is listed at {} in variant {}", d.name, off, at, d.offset, cl.variant),
                        ));
                    }
                }
            }
        }
    }
    // Looking a placed datum up in the built definition panics when it is not there any more.
    let observed = catch_unwind(AssertUnwindSafe(|| observe_definition(&def))).map_err(|e| {
        Failure::new(
            "datum-moved",
            format!("built definition: a datum listed by a variant cannot be looked up any more ({})", panic_message(e)),
        )
    })?;
    for (v, list) in observed.iter().enumerate() {
        for d in list {
            comparisons += 1;
            if fixed.get(&d.id).map(|x| x.0) != Some(d.offset) {
                return Err(Failure::new(
                    "datum-moved",
                    format!("built definition variant {}: datum {} is at {} but was placed at {:?}", v, d.name, d.offset, fixed.get(&d.id)),
                ));
            }
        }
    }
    for (&id, &(off, at)) in &fixed {
        let now = catch_unwind(AssertUnwindSafe(|| def[DatumId::from(id)].details().offset())).map_err(|e| {
            Failure::new(
                "datum-moved",
                format!("built definition: datum id {} placed at {} in variant {} cannot be looked up any more ({})", id, off, at, panic_message(e)),
            )
        })?;
        if now != off {
            return Err(Failure::new(
                "datum-moved",
                format!("built definition: datum id {} is at {} but was placed at {}", id, now, off),
            ));
        }
    }
    let (classes, mut info) = base_info(&trace);
    info.counters.push(("offset_comparisons", comparisons));
    info.nontrivial = classes.ge3_variants && classes.removal_then_later_add;
    Ok(info)
}

pub fn run_c03(seed: u64, cases: u64, threads: usize) -> (Outcome, String) {
    (
        run_prop(seed, cases, threads, || history_strategy(MAX_LEN), check_c03),
        "part (a): valid builder histories as for C01; the offset of every datum is snapshotted when its variant \
         is closed and compared at every later close (also for data removed since) and on the built definition. \
         non-trivial: >= 3 variants and an addition in a variant later than a removal (bytes can be reused); \
         distinct by hash of the history"
            .into(),
    )
}

// ---------------------------------------------------------------------------------------------
// C13 (a)

pub fn config_for(sel: usize) -> GeneratorConfig {
    match sel {
        0 => GeneratorConfig::default(),
        1 => GeneratorConfig::default_with_custom_generators([
            Box::new(CloneImplGenerator) as Box<dyn FragmentGenerator>
        ]),
        2 => GeneratorConfig::default_with_custom_generators([
            Box::new(SerdeImplGenerator) as Box<dyn FragmentGenerator>
        ]),
        _ => GeneratorConfig::default_with_custom_generators([
            Box::new(CloneImplGenerator) as Box<dyn FragmentGenerator>,
            Box::new(SerdeImplGenerator) as Box<dyn FragmentGenerator>,
        ]),
    }
}

pub fn check_c13(h: &History) -> Result<CaseInfo, Failure> {
    let (trace, def) = run_native(h);
    if trace.panicked.is_some() {
        return Ok(skipped_panic());
    }
    let def = def.expect("definition");
    if let Err(e) = catch_unwind(AssertUnwindSafe(|| def.to_string())) {
        return Err(Failure::new("panic:display", format!("Display panicked: {}", panic_message(e))));
    }
    if let Err(e) = catch_unwind(AssertUnwindSafe(|| def.max_size())) {
        return Err(Failure::new("panic:max_size", format!("max_size() panicked: {}", panic_message(e))));
    }
    if let Err(e) = catch_unwind(AssertUnwindSafe(|| def.max_type_align())) {
        return Err(Failure::new("panic:max_type_align", format!("max_type_align() panicked: {}", panic_message(e))));
    }
    for sel in 0..4 {
        if let Err(e) = catch_unwind(AssertUnwindSafe(|| generate(&def, &config_for(sel)))) {
            return Err(Failure::new(
                "panic:generate",
                format!("generate() with fragment selection {} panicked: {}", sel, panic_message(e)),
            ));
        }
    }
    let (c, mut info) = base_info(&trace);
    info.nontrivial = c.add_then_remove_before_close
        || c.empty_first_variant
        || c.removal_only_variant
        || c.uninit_only_variant
        || c.has_zst;
    Ok(info)
}

pub fn run_c13(seed: u64, cases: u64, threads: usize) -> (Outcome, String) {
    (
        run_prop(seed, cases, threads, || history_strategy(MAX_LEN), check_c13),
        "part (a): valid builder histories as for C01; to_string(), max_size(), max_type_align() and generate() \
         with the 4 fragment selections {none, clone, serde, clone+serde} must not panic. non-trivial: the history has \
         an add-then-remove-before-close, an empty first / removal-only / uninit-only variant or a zero-size datum; \
         distinct by hash of the history"
            .into(),
    )
}

// ---------------------------------------------------------------------------------------------
// C19

/// Names the host resolver records for a fixed list of types whose printing involves sets of bounds,
/// nested generics and paths (type naming is part of what a definition history produces).
pub fn recorded_names() -> String {
    use truc::record::type_resolver::TypeResolver;
    let r = HostTypeResolver;
    let mut s = String::new();
    macro_rules! name {
        ($($t:ty),* $(,)?) => {$(
            s.push_str(&catch_unwind(AssertUnwindSafe(|| r.type_info::<$t>().name)).unwrap_or_else(|_| "<panic>".to_string()));
            s.push('\n');
        )*};
    }
    name!(
        Box<dyn std::error::Error + Send + Sync>,
        Box<dyn Fn(u32) -> u32 + Send + Sync>,
        Option<Box<dyn std::fmt::Debug + Send>>,
        std::sync::Arc<dyn std::any::Any + Send + Sync>,
        fn(u32, String) -> Option<Vec<u8>>,
        Result<Vec<Option<Box<str>>>, (u8, String)>,
        [Option<(String, Vec<Box<[u16]>>)>; 3],
        std::collections::BTreeMap<String, Vec<u64>>,
        *const u8,
        &'static str,
    );
    s
}

/// Typed additions (one per addition of the history, up to 40 requests) under the type table of a platform
/// whose machine word has `word` bytes.
fn typed_layout(h: &History, word: usize) -> Option<Vec<Vec<DatumObs>>> {
    let table = truc::record::type_resolver::StaticTypeResolver::from(crate::c18::foreign_map(word));
    let mut b = NativeRecordDefinitionBuilder::new(&table);
    let r = catch_unwind(AssertUnwindSafe(|| {
        let mut n = 0usize;
        for req in h.reqs.iter().take(40) {
            match req {
                Req::Add { size, .. } => {
                    let name = format!("t{}", n);
                    n += 1;
                    let _ = match size % 6 {
                        0 => b.add_datum::<usize, _>(name),
                        1 => b.add_datum_allow_uninit::<u64, _>(name),
                        2 => b.add_datum_allow_uninit::<u32, _>(name),
                        3 => b.add_datum::<String, _>(name),
                        4 => b.add_datum::<Vec<()>, _>(name),
                        _ => b.add_datum::<Box<str>, _>(name),
                    };
                }
                Req::Close { strat } => {
                    close_with(&mut b, *strat);
                }
                _ => {}
            }
        }
        close_with(&mut b, h.final_strat);
    }));
    r.ok()?;
    let def = catch_unwind(AssertUnwindSafe(|| b.build())).ok()?;
    Some(observe_definition(&def))
}

/// Replays a definition through the conversion helper into a native builder: (target layout, generated code).
fn via_helper(
    def: &truc::record::definition::RecordDefinition<truc::record::definition::NativeDatumDetails>,
    strat: Strat,
) -> Option<(Vec<Vec<DatumObs>>, String)> {
    struct Ctx<'a> {
        b: NativeRecordDefinitionBuilder<&'a HostTypeResolver>,
        strat: Strat,
    }
    static HOST: HostTypeResolver = HostTypeResolver;
    let mut ctx = Ctx { b: NativeRecordDefinitionBuilder::new(&HOST), strat };
    let res = catch_unwind(AssertUnwindSafe(|| {
        convert_record_definition(
            def,
            |ctx: &mut Ctx, datum| ctx.b.copy_datum(datum),
            |ctx: &mut Ctx, id| ctx.b.remove_datum(id),
            |ctx: &mut Ctx| close_with(&mut ctx.b, ctx.strat),
            &mut ctx,
        )
    }));
    match res {
        Ok(Ok(_)) => {}
        _ => return None,
    }
    let target = catch_unwind(AssertUnwindSafe(|| ctx.b.build())).ok()?;
    let code = catch_unwind(AssertUnwindSafe(|| generate(&target, &config_for(0)))).ok()?;
    Some((observe_definition(&target), code))
}

/// Digest of everything observable: offsets, Display, generated code (also under a user-written
/// strategy and through the conversion helper).
pub fn digest_of(h: &History, sel: usize) -> Option<String> {
    let (trace, def) = run_native(h);
    let def = def?;
    let text = catch_unwind(AssertUnwindSafe(|| {
        let mut s = String::new();
        for cl in &trace.closes {
            s.push_str(&format!("{:?}|{:?}\n", cl.list, cl.all_offsets));
        }
        s.push_str(&def.to_string());
        s.push_str(&generate(&def, &config_for(sel)));
        s.push_str(&recorded_names());
        if let (tu, Some(du)) = with_user_strategy(|| run_native(h)) {
            for cl in &tu.closes {
                s.push_str(&format!("{:?}|{:?}\n", cl.list, cl.all_offsets));
            }
            s.push_str(&format!("{:?}", observe_definition(&du)));
        }
        if let Some((layout, code)) = via_helper(&def, h.final_strat) {
            s.push_str(&format!("{:?}", layout));
            s.push_str(&code);
        }
        s.push_str(&format!("{:?}", typed_layout(h, 4)));
        s
    }))
    .ok()?;
    // FNV-1a 128 of the text, plus the length
    let mut hash: u128 = 0x6c62272e07bb014262b821756295c58d;
    for b in text.bytes() {
        hash ^= b as u128;
        hash = hash.wrapping_mul(0x0000000001000000000000000000013B);
    }
    Some(format!("{:032x}-{}", hash, text.len()))
}

pub fn check_c19(h: &History) -> Result<CaseInfo, Failure> {
    let (trace, def) = run_native(h);
    if trace.panicked.is_some() {
        return Ok(skipped_panic());
    }
    let def = def.expect("definition");
    let (trace2, def2) = run_native(h);
    let def2 = match def2 {
        Some(d) => d,
        None => {
            return Err(Failure::new(
                "nondeterministic-panic",
                format!("second replay of the same history panicked: {:?}", trace2.panicked),
            ))
        }
    };
    let o1 = observe_definition(&def);
    let o2 = observe_definition(&def2);
    if o1 != o2 {
        return Err(Failure::new("offsets-differ", "two replays of the same history gave different variants/offsets"));
    }
    for (a, b) in trace.closes.iter().zip(trace2.closes.iter()) {
        if a.list != b.list || a.all_offsets != b.all_offsets {
            return Err(Failure::new("offsets-differ", format!("two replays differ after close of variant {}", a.variant)));
        }
    }
    let d1 = catch_unwind(AssertUnwindSafe(|| def.to_string()));
    let d2 = catch_unwind(AssertUnwindSafe(|| def2.to_string()));
    if let (Ok(d1), Ok(d2)) = (&d1, &d2) {
        if d1 != d2 {
            return Err(Failure::new("display-differs", "Display differs between two replays"));
        }
    }
    let mut bytes = 0u64;
    for sel in 0..4 {
        // one configuration object serves two generations (then a fresh one for the other replay)
        let config = config_for(sel);
        let g1 = catch_unwind(AssertUnwindSafe(|| generate(&def, &config)));
        let g1b = catch_unwind(AssertUnwindSafe(|| generate(&def, &config)));
        let g2 = catch_unwind(AssertUnwindSafe(|| generate(&def2, &config_for(sel))));
        if let (Ok(g1), Ok(g1b), Ok(g2)) = (&g1, &g1b, &g2) {
            bytes += g1.len() as u64;
            if g1 != g1b {
                return Err(Failure::new("code-differs", format!("generate() twice on one definition, with one configuration object, differs (fragment selection {})", sel)));
            }
            if g1 != g2 {
                return Err(Failure::new("code-differs", format!("generated code differs between two replays (fragment selection {})", sel)));
            }
        }
    }
    if recorded_names() != recorded_names() {
        return Err(Failure::new("names-differ", "the type names recorded for a fixed list of types differ between two calls"));
    }
    // The same requests under a strategy written by the user, whose layout depends on the order in which
    // the builder hands over the pending additions and removals.
    let user = |h: &History| with_user_strategy(|| run_native(h));
    if let ((t1, Some(u1)), (t2, u2)) = (user(h), user(h)) {
        let same = match &u2 {
            Some(u2) => {
                observe_definition(&u1) == observe_definition(u2)
                    && t1.closes.iter().zip(t2.closes.iter()).all(|(a, b)| a.list == b.list && a.all_offsets == b.all_offsets)
            }
            None => false,
        };
        if !same {
            return Err(Failure::new(
                "offsets-differ",
                "two replays of the same history under a user-written closing strategy (slot reuse in request order) gave different layouts",
            ));
        }
    }
    // Typed additions under a type table: the layout depends on this table only, not on the tables the
    // process (this thread, this stack address) has used before.
    let (first, other, again) = (typed_layout(h, 4), typed_layout(h, 16), typed_layout(h, 4));
    // (what a thread that has never seen a table computes)
    let other_fresh = std::thread::scope(|s| s.spawn(|| typed_layout(h, 16)).join().ok().flatten());
    if first != again || other != other_fresh {
        return Err(Failure::new(
            "offsets-differ",
            "typed additions under the same type table gave two layouts, before and after another table was used",
        ));
    }
    // The same definition replayed twice through the conversion helper into a native builder.
    if let (Some(a), Some(b)) = (via_helper(&def, h.final_strat), via_helper(&def, h.final_strat)) {
        bytes += a.1.len() as u64;
        if a.0 != b.0 {
            return Err(Failure::new("offsets-differ", "replaying one definition twice through the conversion helper gave different target layouts"));
        }
        if a.1 != b.1 {
            return Err(Failure::new("code-differs", "replaying one definition twice through the conversion helper gave different generated code"));
        }
    }
    let (_c, mut info) = base_info(&trace);
    info.counters.push(("generated_bytes_compared", bytes));
    info.nontrivial = c19_nontrivial(&trace);
    Ok(info)
}

pub fn c19_nontrivial(trace: &Trace) -> bool {
    // >= 2 data of equal size added in one variant and >= 2 distinct type names overall
    let mut tie = false;
    let mut types = std::collections::BTreeSet::new();
    for cl in trace.closes.iter().filter(|c| c.created) {
        let mut sizes = BTreeMap::new();
        for d in cl.list.iter().filter(|d| cl.added.contains(&d.id)) {
            *sizes.entry(d.size).or_insert(0) += 1;
        }
        if sizes.values().any(|&n| n >= 2) {
            tie = true;
        }
        for d in &cl.list {
            types.insert((d.size, d.align));
        }
    }
    tie && types.len() >= 2
}

pub fn run_c19(seed: u64, cases: u64, threads: usize) -> (Outcome, String) {
    (
        run_prop(seed, cases, threads, || history_strategy(MAX_LEN), check_c19),
        "in-process part: valid builder histories as for C01 replayed twice; offsets after every close, the built \
         variants, Display and generate() output (4 fragment selections, generated twice on one definition and once on \
         the second replay) must be identical; so must two replays under a user-written closing strategy whose layout depends on \
         the order in which pending removals and additions are handed over (slot reuse), and two replays of the built \
         definition through the conversion helper (target layout and code). cross-process part: see `cross_process` in this file. non-trivial: >= 2 \
         data of equal size added in one variant (tie-breaking) and >= 2 distinct type names; distinct by hash of the history"
            .into(),
    )
}

// ---------------------------------------------------------------------------------------------
// C20

#[derive(Clone, Debug, Serialize, Deserialize, Hash, PartialEq, Eq)]
pub struct C20Case {
    pub source: History,
    pub target_strats: Vec<Strat>,
}

fn c20_strategy() -> impl Strategy<Value = C20Case> {
    (history_strategy(MAX_LEN), prop::collection::vec(strat_strategy(), 1..6))
        .prop_map(|(source, target_strats)| C20Case { source, target_strats })
}

type Key = (String, String, usize, usize, bool);

fn key_of(name: &str, ti: &TypeInfo, uninit: bool) -> Key {
    (name.to_string(), ti.name.clone(), ti.size, ti.align, uninit)
}

pub fn check_c20(case: &C20Case) -> Result<CaseInfo, Failure> {
    let (trace, def) = run_native(&case.source);
    if trace.panicked.is_some() {
        return Ok(skipped_panic());
    }
    let def = def.expect("definition");
    let src_variants: Vec<(RecordVariantId, Vec<DatumId>)> =
        def.variants().map(|v| (v.id(), v.data().collect())).collect();

    // (a) native targets: over the host resolver, and over an empty type table (copying a datum needs no resolver)
    macro_rules! native_target {
        ($resolver_ty:ty, $resolver:expr, $label:expr) => {{
        struct Ctx<'a> {
            b: NativeRecordDefinitionBuilder<&'a $resolver_ty>,
            strats: &'a [Strat],
            closes: usize,
        }
        let resolver: $resolver_ty = $resolver;
        let mut ctx = Ctx {
            b: NativeRecordDefinitionBuilder::new(&resolver),
            strats: &case.target_strats,
            closes: 0,
        };
        let res = catch_unwind(AssertUnwindSafe(|| {
            convert_record_definition(
                &def,
                |ctx: &mut Ctx, datum| ctx.b.copy_datum(datum),
                |ctx: &mut Ctx, id| ctx.b.remove_datum(id),
                |ctx: &mut Ctx| {
                    let s = ctx.strats[ctx.closes % ctx.strats.len()];
                    ctx.closes += 1;
                    close_with(&mut ctx.b, s)
                },
                &mut ctx,
            )
        }));
        let map = match res {
            Err(e) => return Err(Failure::new("convert-panicked", format!("{}: {}", $label, panic_message(e)))),
            Ok(Err(e)) => return Err(Failure::new("convert-failed", format!("{}: {}", $label, e))),
            Ok(Ok(m)) => m,
        };
        let target = catch_unwind(AssertUnwindSafe(|| ctx.b.build()))
            .map_err(|e| Failure::new("target-build-panicked", panic_message(e)))?;
        let tgt_variants: Vec<(RecordVariantId, Vec<DatumId>)> =
            target.variants().map(|v| (v.id(), v.data().collect())).collect();
        check_mapping(
            $label,
            &src_variants,
            &tgt_variants,
            &map,
            |d| {
                let x = &def[d];
                key_of(x.name(), x.details().type_info(), x.details().allow_uninit())
            },
            |d| {
                let x = &target[d];
                key_of(x.name(), x.details().type_info(), x.details().allow_uninit())
            },
        )?;
    }};
    }
    native_target!(HostTypeResolver, HostTypeResolver, "native target");
    native_target!(truc::record::type_resolver::StaticTypeResolver, truc::record::type_resolver::StaticTypeResolver::new(), "native target over an empty type table");
    // (b) generic target carrying the type information as details
    {
        struct Ctx<'a> {
            b: GenericRecordDefinitionBuilder<Key>,
            reverse: &'a [Strat],
            closes: usize,
        }
        let mut ctx = Ctx {
            b: GenericRecordDefinitionBuilder::new(),
            reverse: &case.target_strats,
            closes: 0,
        };
        let res = catch_unwind(AssertUnwindSafe(|| {
            convert_record_definition(
                &def,
                |ctx: &mut Ctx, datum| {
                    ctx.b.add_datum(
                        datum.name(),
                        key_of(datum.name(), datum.details().type_info(), datum.details().allow_uninit()),
                    )
                },
                |ctx: &mut Ctx, id| ctx.b.remove_datum(id),
                |ctx: &mut Ctx| {
                    let s = ctx.reverse[ctx.closes % ctx.reverse.len()];
                    ctx.closes += 1;
                    match s {
                        Strat::Simple | Strat::Append => ctx.b.close_record_variant_with(gvariant::append_data),
                        _ => ctx.b.close_record_variant_with(gvariant::append_data_reverse),
                    }
                },
                &mut ctx,
            )
        }));
        let map = match res {
            Err(e) => return Err(Failure::new("convert-panicked", format!("generic target: {}", panic_message(e)))),
            Ok(Err(e)) => return Err(Failure::new("convert-failed", format!("generic target: {}", e))),
            Ok(Ok(m)) => m,
        };
        let target = catch_unwind(AssertUnwindSafe(|| ctx.b.build()))
            .map_err(|e| Failure::new("target-build-panicked", panic_message(e)))?;
        let tgt_variants: Vec<(RecordVariantId, Vec<DatumId>)> =
            target.variants().map(|v| (v.id(), v.data().collect())).collect();
        check_mapping(
            "generic target",
            &src_variants,
            &tgt_variants,
            &map,
            |d| {
                let x = &def[d];
                key_of(x.name(), x.details().type_info(), x.details().allow_uninit())
            },
            |d| target[d].details().clone(),
        )?;
    }

    let (c, mut info) = base_info(&trace);
    // non-trivial: >= 3 source variants, a removal followed by a later addition, a name reused by a
    // different datum in a later variant, and a target strategy different from the source's for at
    // least one variant.
    let differs = trace
        .closes
        .iter()
        .filter(|c| c.created)
        .enumerate()
        .any(|(i, cl)| case.target_strats[i % case.target_strats.len()] != cl.strat);
    info.nontrivial = c.ge3_variants && c.removal_then_later_add && differs && c.name_reused;
    Ok(info)
}

fn check_mapping(
    what: &str,
    src: &[(RecordVariantId, Vec<DatumId>)],
    tgt: &[(RecordVariantId, Vec<DatumId>)],
    map: &BTreeMap<RecordVariantId, RecordVariantId>,
    src_key: impl Fn(DatumId) -> Key,
    tgt_key: impl Fn(DatumId) -> Key,
) -> Result<(), Failure> {
    if map.len() != src.len() {
        return Err(Failure::new(
            "map-size",
            format!("{}: the map has {} entries for {} source variants", what, map.len(), src.len()),
        ));
    }
    if tgt.len() != src.len() {
        return Err(Failure::new(
            "variant-count",
            format!("{}: {} target variants for {} source variants", what, tgt.len(), src.len()),
        ));
    }
    let mut last: Option<RecordVariantId> = None;
    let mut datum_map: BTreeMap<DatumId, DatumId> = BTreeMap::new();
    let mut reverse: BTreeMap<DatumId, DatumId> = BTreeMap::new();
    for (sv, sdata) in src {
        let tv = match map.get(sv) {
            Some(tv) => *tv,
            None => return Err(Failure::new("map-missing", format!("{}: source variant {} is not in the map", what, sv))),
        };
        if let Some(l) = last {
            if tv <= l {
                return Err(Failure::new(
                    "map-order",
                    format!("{}: source variant {} maps to {}, not after {}", what, sv, tv, l),
                ));
            }
        }
        last = Some(tv);
        let tdata = match tgt.iter().find(|(id, _)| *id == tv) {
            Some((_, d)) => d,
            None => return Err(Failure::new("map-dangling", format!("{}: mapped variant {} does not exist in the target", what, tv))),
        };
        let mut skeys: Vec<(Key, DatumId)> = sdata.iter().map(|&d| (src_key(d), d)).collect();
        let mut tkeys: Vec<(Key, DatumId)> = tdata.iter().map(|&d| (tgt_key(d), d)).collect();
        skeys.sort();
        tkeys.sort();
        let sk: Vec<&Key> = skeys.iter().map(|x| &x.0).collect();
        let tk: Vec<&Key> = tkeys.iter().map(|x| &x.0).collect();
        if sk != tk {
            return Err(Failure::new(
                "pair-differs",
                format!("{}: source variant {} holds {:?} but target variant {} holds {:?}", what, sv, sk, tv, tk),
            ));
        }
        // names are unique within a variant, so matching by key pairs the data
        for ((_, s), (_, t)) in skeys.iter().zip(tkeys.iter()) {
            if let Some(prev) = datum_map.insert(*s, *t) {
                if prev != *t {
                    return Err(Failure::new(
                        "datum-split",
                        format!("{}: source datum {} corresponds to target data {} and {} in different variants", what, s, prev, t),
                    ));
                }
            }
            if let Some(prev) = reverse.insert(*t, *s) {
                if prev != *s {
                    return Err(Failure::new(
                        "datum-merged",
                        format!("{}: target datum {} corresponds to source data {} and {}", what, t, prev, s),
                    ));
                }
            }
        }
    }
    Ok(())
}

pub fn replay_c20(case: &Value) -> Result<(), Failure> {
    let c: C20Case = serde_json::from_value(case.clone())
        .map_err(|e| Failure::new("bad-replay-file", e.to_string()))?;
    check_c20(&c).map(|_| ())
}

pub fn run_c20(seed: u64, cases: u64, threads: usize) -> (Outcome, String) {
    (
        run_prop(seed, cases, threads, c20_strategy, check_c20),
        "source definitions from valid histories (any strategy mixture) replayed with convert_record_definition into \
         (a) a native builder closing with a generated strategy sequence and (b) a generic builder; the map must have one \
         entry per source variant in increasing order, each pair must hold the same multiset of (name, type info, uninit \
         flag), and the source->target datum correspondence must be a function and injective over all variants. \
         non-trivial: >= 3 source variants, an addition after a removal, a name reused by a different datum in a later variant, and a target strategy differing from the source's; \
         distinct by hash of (history, target strategies)"
            .into(),
    )
}

// ---------------------------------------------------------------------------------------------
// C19 across processes

#[derive(Clone, Debug, Serialize, Deserialize, Hash, PartialEq, Eq)]
pub struct CrossCase {
    pub history: History,
    pub fragsel: u8,
}

pub fn check_c19_cross(case: &CrossCase) -> Result<CaseInfo, Failure> {
    let sel = (case.fragsel % 4) as usize;
    let (trace, _def) = run_native(&case.history);
    if trace.panicked.is_some() {
        return Ok(skipped_panic());
    }
    let here = match digest_of(&case.history, sel) {
        Some(d) => d,
        None => return Ok(skipped_panic()),
    };
    let dir = std::env::var("VERIF_WORK").unwrap_or_else(|_| "/verif/work".to_string());
    let dir = format!("{}/c19x", dir);
    let _ = std::fs::create_dir_all(&dir);
    let path = format!("{}/h-{}-{:?}.json", dir, std::process::id(), std::thread::current().id());
    std::fs::write(&path, serde_json::to_string(&case.history).unwrap())
        .map_err(|e| Failure::new("harness-io", e.to_string()))?;
    let exe = std::env::current_exe().map_err(|e| Failure::new("harness-io", e.to_string()))?;
    let mut digests = vec![here];
    for _ in 0..2 {
        let out = std::process::Command::new(&exe)
            .arg("gen")
            .arg(&path)
            .arg(sel.to_string())
            .output()
            .map_err(|e| Failure::new("harness-io", e.to_string()))?;
        digests.push(String::from_utf8_lossy(&out.stdout).trim().to_string());
    }
    let _ = std::fs::remove_file(&path);
    if digests[1] != digests[0] || digests[2] != digests[0] {
        return Err(Failure::new(
            "cross-process-differs",
            format!(
                "offsets/Display/generated code digests differ between processes (fragment selection {}): parent {} children {} {}",
                sel, digests[0], digests[1], digests[2]
            ),
        ));
    }
    let (_c, mut info) = base_info(&trace);
    info.labels.push("cross_process");
    info.nontrivial = c19_nontrivial(&trace);
    Ok(info)
}

pub fn replay_c19(case: &Value) -> Result<(), Failure> {
    if case.get("history").is_some() {
        let c: CrossCase = serde_json::from_value(case.clone())
            .map_err(|e| Failure::new("bad-replay-file", e.to_string()))?;
        check_c19_cross(&c).map(|_| ())
    } else {
        replay(case, check_c19)
    }
}

pub fn run_c19_cross(seed: u64, cases: u64, threads: usize) -> (Outcome, String) {
    (
        run_prop(
            seed ^ 0x19c,
            cases,
            threads,
            || (history_strategy(MAX_LEN), 0u8..4).prop_map(|(history, fragsel)| CrossCase { history, fragsel }),
            check_c19_cross,
        ),
        "cross-process part: a valid history and a fragment selection; two freshly started child processes replay the \
         history and must print the same digest (offsets after every close, Display, generated code) as the parent; \
         per-process hash seeds differ, so hash-order dependence shows. non-trivial as for the in-process part"
            .into(),
    )
}
