//! Checks of E1 as a library (used by the binary and by the fuzz targets).
pub mod c12;
pub mod c18;
pub mod layout;
