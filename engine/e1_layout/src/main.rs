//! E1: in-process property-based testing of truc's build-time library.
//!
//! usage:
//!   e1_layout run <PROP> <cases> <result.json>
//!   e1_layout replay <PROP> <case.json>          (exit 0: holds, exit 1: violated)
//!   e1_layout gen <history.json> <fragsel 0..3>  (prints a digest of offsets + generated code)

use e1_layout::{c12, c18, layout};

use std::{fs, process::ExitCode};

use serde_json::Value;
use vcore::*;

fn usage() -> ExitCode {
    eprintln!("usage: e1_layout run <PROP> <cases> <result.json> | replay <PROP> <case.json> | gen <history.json> <fragsel>");
    ExitCode::from(2)
}

fn main() -> ExitCode {
    let args: Vec<String> = std::env::args().collect();
    if args.len() < 2 {
        return usage();
    }
    silence_panics();
    match args[1].as_str() {
        "run" if args.len() == 5 => {
            let prop = args[2].as_str();
            let cases: u64 = args[3].parse().expect("cases");
            let seed = env_seed();
            let threads = env_threads();
            let (outcome, rule) = match prop {
                "C01" => layout::run_c01(seed, cases, threads),
                "C02" => layout::run_c02(seed, cases, threads),
                "C03" => layout::run_c03(seed, cases, threads),
                "C13" => layout::run_c13(seed, cases, threads),
                "C19" => layout::run_c19(seed, cases, threads),
                "C19x" => layout::run_c19_cross(seed, cases, threads),
                "C20" => layout::run_c20(seed, cases, threads),
                "C12" => c12::run_c12(seed, cases, threads),
                "C18" => c18::run_c18(seed, cases, threads),
                _ => return usage(),
            };
            let json = outcome.to_json(prop, &rule);
            fs::write(&args[4], serde_json::to_string_pretty(&json).unwrap()).expect("write result");
            ExitCode::SUCCESS
        }
        "replay" if args.len() == 4 => {
            let prop = args[2].as_str();
            let text = fs::read_to_string(&args[3]).expect("read case");
            let v: Value = serde_json::from_str(&text).expect("json");
            let case = v.get("case").cloned().unwrap_or(v);
            let res = match prop {
                "C01" => layout::replay(&case, layout::check_c01),
                "C02" => layout::replay(&case, layout::check_c02),
                "C03" => layout::replay(&case, layout::check_c03),
                "C13" => layout::replay(&case, layout::check_c13),
                "C19" => layout::replay_c19(&case),
                "C20" => layout::replay_c20(&case),
                "C12" => c12::replay(&case),
                "C18" => c18::replay(&case),
                _ => return usage(),
            };
            match res {
                Ok(()) => {
                    println!("replay: property {} holds on this case", prop);
                    ExitCode::SUCCESS
                }
                Err(f) => {
                    println!("replay: property {} VIOLATED [{}]: {}", prop, f.signature, f.message);
                    ExitCode::from(1)
                }
            }
        }
        "gen" if args.len() == 4 => {
            let text = fs::read_to_string(&args[2]).expect("read history");
            let h: History = serde_json::from_str(&text).expect("history json");
            let sel: usize = args[3].parse().expect("fragsel");
            match layout::digest_of(&h, sel) {
                Some(d) => {
                    println!("{}", d);
                    ExitCode::SUCCESS
                }
                None => {
                    println!("panic");
                    ExitCode::SUCCESS
                }
            }
        }
        _ => usage(),
    }
}
