//! C18: the layout depends only on the resolver's answers; type tables are faithful.

use std::{
    collections::BTreeMap,
    panic::{catch_unwind, AssertUnwindSafe},
};

use proptest::prelude::*;
use serde::{Deserialize, Serialize};
use serde_json::Value;
use truc::record::{
    definition::{
        builder::native::{variant, DatumDefinitionOverride, NativeRecordDefinitionBuilder},
        DatumDefinition, DatumId, NativeDatumDetails,
    },
    type_resolver::{DynamicTypeInfo, HostTypeResolver, StaticTypeResolver, TypeInfo, TypeResolver},
};
use vcore::*;

// ---------------------------------------------------------------------------------------------
// Host type menu. Indices 0..COPY_N are Copy types, the rest are not.

const MENU_N: usize = 12;
const COPY_N: usize = 8;

macro_rules! with_menu_type {
    ($idx:expr, $t:ident => $body:expr) => {
        match $idx {
            0 => { type $t = u8; $body }
            1 => { type $t = u16; $body }
            2 => { type $t = u32; $body }
            3 => { type $t = u64; $body }
            4 => { type $t = usize; $body }
            5 => { type $t = u128; $body }
            6 => { type $t = (u8, u32); $body }
            7 => { type $t = [u16; 3]; $body }
            8 => { type $t = String; $body }
            9 => { type $t = Vec<u8>; $body }
            10 => { type $t = Box<str>; $body }
            _ => { type $t = Option<Box<u64>>; $body }
        }
    };
}

fn menu_name(idx: usize) -> String {
    with_menu_type!(idx, T => HostTypeResolver.type_info::<T>().name)
}

fn host_info(idx: usize) -> TypeInfo {
    with_menu_type!(idx, T => HostTypeResolver.type_info::<T>())
}

/// A resolver answering generated sizes and alignments.
struct SyntheticResolver {
    by_name: BTreeMap<String, DynamicTypeInfo>,
}

impl SyntheticResolver {
    fn new(answers: &[(usize, usize)], perm: &[usize]) -> Self {
        // the type at menu index perm[i] gets answer i
        let mut by_name = BTreeMap::new();
        for i in 0..MENU_N {
            let name = menu_name(perm[i]);
            by_name.insert(
                name.clone(),
                DynamicTypeInfo {
                    info: TypeInfo {
                        // the recorded name is part of the answer; it is kept independent of the
                        // host type so that two host types with the same answer are indistinguishable
                        name: format!("syn::T{}", i),
                        size: answers[i].0,
                        align: answers[i].1,
                    },
                    allow_uninit: i < COPY_N && i % 2 == 0,
                },
            );
        }
        SyntheticResolver { by_name }
    }
}

impl TypeResolver for SyntheticResolver {
    fn type_info<T>(&self) -> TypeInfo {
        let name = HostTypeResolver.type_info::<T>().name;
        self.by_name[&name].info.clone()
    }
    fn dynamic_type_info(&self, type_name: &str) -> DynamicTypeInfo {
        // accept the truc spelling of the host type
        let key: String = type_name.split_whitespace().collect::<Vec<_>>().join(" ");
        self.by_name
            .get(&key)
            .or_else(|| self.by_name.get(type_name))
            .unwrap_or_else(|| panic!("synthetic resolver: unknown type {:?}", type_name))
            .clone()
    }
}

#[derive(Clone, Copy, Debug, Serialize, Deserialize, PartialEq, Eq, Hash)]
pub enum Entry {
    Typed,
    TypedUninit,
    Dynamic,
    Override { size: Option<usize>, align: Option<usize>, uninit: Option<bool>, rename: bool },
    Copy,
}

#[derive(Clone, Debug, Serialize, Deserialize, PartialEq, Eq, Hash)]
pub enum Req18 {
    Add { ty: u8, entry: Entry },
    Remove { sel: u16 },
    Close { strat: Strat },
}

#[derive(Clone, Debug, Serialize, Deserialize, PartialEq, Eq, Hash)]
pub struct LayoutCase {
    /// answer i: (size, align)
    pub answers: Vec<(usize, usize)>,
    /// permutation seeds (within the Copy group and within the non-Copy group)
    pub perm_a: Vec<u16>,
    pub perm_b: Vec<u16>,
    pub reqs: Vec<Req18>,
    pub final_strat: Strat,
}

#[derive(Clone, Debug, Serialize, Deserialize, PartialEq, Eq, Hash)]
pub struct TableCase {
    pub std_first: bool,
    /// custom types to register, in order (indices into the custom menu, made distinct)
    pub custom: Vec<u8>,
    pub uninit_flags: u16,
    pub spaces: Vec<u8>,
}

#[derive(Clone, Debug, Serialize, Deserialize, PartialEq, Eq, Hash)]
pub enum Case18 {
    Layout(LayoutCase),
    Table(TableCase),
}

fn entry_strategy() -> impl Strategy<Value = Entry> {
    prop_oneof![
        3 => Just(Entry::Typed),
        2 => Just(Entry::TypedUninit),
        2 => Just(Entry::Dynamic),
        2 => (
            prop::option::weighted(0.4, shape_strategy()),
            prop::option::weighted(0.3, any::<bool>()),
            any::<bool>(),
            any::<bool>(),
        )
            .prop_map(|(shape, uninit, rename, only_size)| Entry::Override {
                size: shape.map(|s| s.0),
                align: shape.and_then(|s| if only_size { None } else { Some(s.1) }),
                uninit,
                rename,
            }),
        2 => Just(Entry::Copy),
    ]
}

fn layout_case() -> impl Strategy<Value = LayoutCase> {
    (
        prop::collection::vec(shape_strategy(), MENU_N),
        prop::collection::vec(any::<u16>(), COPY_N),
        prop::collection::vec(any::<u16>(), MENU_N - COPY_N),
        prop::collection::vec(
            prop_oneof![
                10 => (0u8..MENU_N as u8, entry_strategy()).prop_map(|(ty, entry)| Req18::Add { ty, entry }),
                3 => any::<u16>().prop_map(|sel| Req18::Remove { sel }),
                4 => strat_strategy().prop_map(|strat| Req18::Close { strat }),
            ],
            0..40,
        ),
        strat_strategy(),
    )
        .prop_map(|(answers, perm_a, perm_b, reqs, final_strat)| LayoutCase {
            answers,
            perm_a,
            perm_b,
            reqs,
            final_strat,
        })
}

fn table_case() -> impl Strategy<Value = TableCase> {
    (
        any::<bool>(),
        prop::collection::vec(0u8..CUSTOM_N as u8, 0..CUSTOM_N + 1),
        any::<u16>(),
        prop::collection::vec(0u8..4, 8),
    )
        .prop_map(|(std_first, custom, uninit_flags, spaces)| TableCase {
            std_first,
            custom,
            uninit_flags,
            spaces,
        })
}

fn case18() -> impl Strategy<Value = Case18> {
    prop_oneof![
        30 => layout_case().prop_map(Case18::Layout),
        1 => table_case().prop_map(Case18::Table),
    ]
}

/// Fisher-Yates from generated selectors (deterministic function of the case).
fn permutation(base: usize, sels: &[u16]) -> Vec<usize> {
    let n = sels.len();
    let mut v: Vec<usize> = (base..base + n).collect();
    for i in (1..n).rev() {
        let j = pick(sels[i], i + 1);
        v.swap(i, j);
    }
    v
}

#[derive(Debug, PartialEq, Eq, Clone)]
struct LayoutObs {
    /// per close: list of (datum id, offset)
    closes: Vec<Vec<(usize, usize)>>,
    /// per datum id: (type name, size, align, uninit)
    infos: Vec<(String, usize, usize, bool)>,
}

fn close_generic<R: TypeResolver>(b: &mut NativeRecordDefinitionBuilder<R>, s: Strat) -> usize {
    let v = match s {
        Strat::Simple => b.close_record_variant_with(variant::simple),
        Strat::Basic => b.close_record_variant_with(variant::basic),
        Strat::Append => b.close_record_variant_with(variant::append_data),
        Strat::AppendReverse => b.close_record_variant_with(variant::append_data_reverse),
    };
    v.to_string().parse().unwrap()
}

/// Expected (info, uninit) of an add, computed from the resolver's answer only.
fn expected_of(answer_idx: usize, answers: &[(usize, usize)], entry: Entry, k: usize) -> (TypeInfo, bool) {
    let base = TypeInfo {
        name: format!("syn::T{}", answer_idx),
        size: answers[answer_idx].0,
        align: answers[answer_idx].1,
    };
    let table_uninit = answer_idx < COPY_N && answer_idx % 2 == 0;
    match entry {
        Entry::Typed => (base, false),
        Entry::TypedUninit => (base, true),
        Entry::Dynamic => (base, table_uninit),
        Entry::Override { size, align, uninit, rename } => (
            TypeInfo {
                name: if rename { format!("renamed::R{}", k) } else { base.name },
                size: size.unwrap_or(base.size),
                align: align.unwrap_or(base.align),
            },
            uninit.unwrap_or(false),
        ),
        Entry::Copy => (base, table_uninit),
    }
}

/// Runs the case with host types chosen through `perm` (answer index -> menu index).
fn run_layout(case: &LayoutCase, perm: &[usize]) -> Result<LayoutObs, Failure> {
    let resolver = SyntheticResolver::new(&case.answers, perm);
    let mut b = NativeRecordDefinitionBuilder::new(&resolver);
    let mut obs = LayoutObs { closes: vec![], infos: vec![] };
    let mut n_variants = 0usize;
    let mut pending = false;
    let mut counter = 0usize;
    let r = catch_unwind(AssertUnwindSafe(|| -> Result<(), Failure> {
        for req in &case.reqs {
            match req {
                Req18::Add { ty, entry } => {
                    let a = *ty as usize % MENU_N; // answer index
                    let host = perm[a];
                    let entry = match entry {
                        Entry::TypedUninit if a >= COPY_N => Entry::Typed,
                        e => *e,
                    };
                    let name = format!("f{}", counter);
                    let k = counter;
                    counter += 1;
                    let (exp_info, exp_uninit) = expected_of(a, &case.answers, entry, k);
                    let id = match entry {
                        Entry::Typed => with_menu_type!(host, T => b.add_datum::<T, _>(name)),
                        Entry::TypedUninit => match host {
                            0 => b.add_datum_allow_uninit::<u8, _>(name),
                            1 => b.add_datum_allow_uninit::<u16, _>(name),
                            2 => b.add_datum_allow_uninit::<u32, _>(name),
                            3 => b.add_datum_allow_uninit::<u64, _>(name),
                            4 => b.add_datum_allow_uninit::<usize, _>(name),
                            5 => b.add_datum_allow_uninit::<u128, _>(name),
                            6 => b.add_datum_allow_uninit::<(u8, u32), _>(name),
                            _ => b.add_datum_allow_uninit::<[u16; 3], _>(name),
                        },
                        Entry::Dynamic => b.add_dynamic_datum(name, menu_name(host)),
                        Entry::Override { size, align, uninit, rename } => {
                            let o = DatumDefinitionOverride {
                                type_name: if rename { Some(format!("renamed::R{}", k)) } else { None },
                                size,
                                align,
                                allow_uninit: uninit,
                            };
                            with_menu_type!(host, T => b.add_datum_override::<T, _>(name, o))
                        }
                        Entry::Copy => {
                            let d = DatumDefinition::new(
                                DatumId::from(9999usize),
                                name,
                                NativeDatumDetails::new(12345, exp_info.clone(), exp_uninit),
                            );
                            b.copy_datum(&d)
                        }
                    }
                    .map_err(|e| Failure::new("valid-add-rejected", e))?;
                    pending = true;
                    let d = &b[id];
                    let got = (d.details().type_info().clone(), d.details().allow_uninit());
                    if got != (exp_info.clone(), exp_uninit) {
                        return Err(Failure::new(
                            "type-info-differs",
                            format!(
                                "datum {} added through {:?} with host type {} records {:?}, the resolver / override says {:?}",
                                d.name(),
                                entry,
                                menu_name(host),
                                got,
                                (exp_info, exp_uninit)
                            ),
                        ));
                    }
                    let idx = datum_index(id);
                    if obs.infos.len() <= idx {
                        obs.infos.resize(idx + 1, (String::new(), 0, 0, false));
                    }
                    obs.infos[idx] = (got.0.name, got.0.size, got.0.align, got.1);
                }
                Req18::Remove { sel } => {
                    let cur: Vec<DatumId> = b.get_current_data().collect();
                    if cur.is_empty() {
                        continue;
                    }
                    b.remove_datum(cur[pick(*sel, cur.len())])
                        .map_err(|e| Failure::new("valid-remove-rejected", e))?;
                    pending = true;
                }
                Req18::Close { strat } => {
                    let v = close_generic(&mut b, *strat);
                    if v == n_variants {
                        n_variants += 1;
                    }
                    pending = false;
                    let vid = truc::record::definition::RecordVariantId::from(v);
                    obs.closes.push(
                        b[vid].data().map(|d| (datum_index(d), b[d].details().offset())).collect(),
                    );
                }
            }
        }
        if pending || n_variants == 0 {
            let v = close_generic(&mut b, case.final_strat);
            let vid = truc::record::definition::RecordVariantId::from(v);
            obs.closes.push(b[vid].data().map(|d| (datum_index(d), b[d].details().offset())).collect());
        }
        Ok(())
    }));
    match r {
        Ok(Ok(())) => Ok(obs),
        Ok(Err(f)) => Err(f),
        Err(e) => Err(Failure::new("skipped-panic", panic_message(e))),
    }
}

/// Replays the recorded type information through `add_datum_override` with explicit values.
fn run_explicit(case: &LayoutCase, infos: &[(String, usize, usize, bool)]) -> Result<Vec<Vec<(usize, usize)>>, Failure> {
    static HOST: HostTypeResolver = HostTypeResolver;
    let mut b = NativeRecordDefinitionBuilder::new(&HOST);
    let mut closes = vec![];
    let mut counter = 0usize;
    let mut n_variants = 0usize;
    let mut pending = false;
    let r = catch_unwind(AssertUnwindSafe(|| -> Result<(), Failure> {
        for req in &case.reqs {
            match req {
                Req18::Add { .. } => {
                    let name = format!("f{}", counter);
                    let (tn, size, align, uninit) = infos[counter].clone();
                    counter += 1;
                    b.add_datum_override::<(), _>(
                        name,
                        DatumDefinitionOverride {
                            type_name: Some(tn),
                            size: Some(size),
                            align: Some(align),
                            allow_uninit: Some(uninit),
                        },
                    )
                    .map_err(|e| Failure::new("valid-add-rejected", e))?;
                    pending = true;
                }
                Req18::Remove { sel } => {
                    let cur: Vec<DatumId> = b.get_current_data().collect();
                    if cur.is_empty() {
                        continue;
                    }
                    b.remove_datum(cur[pick(*sel, cur.len())])
                        .map_err(|e| Failure::new("valid-remove-rejected", e))?;
                    pending = true;
                }
                Req18::Close { strat } => {
                    let v = close_generic(&mut b, *strat);
                    if v == n_variants {
                        n_variants += 1;
                    }
                    pending = false;
                    let vid = truc::record::definition::RecordVariantId::from(v);
                    closes.push(b[vid].data().map(|d| (datum_index(d), b[d].details().offset())).collect());
                }
            }
        }
        if pending || n_variants == 0 {
            let v = close_generic(&mut b, case.final_strat);
            let vid = truc::record::definition::RecordVariantId::from(v);
            closes.push(b[vid].data().map(|d| (datum_index(d), b[d].details().offset())).collect());
        }
        Ok(())
    }));
    match r {
        Ok(Ok(())) => Ok(closes),
        Ok(Err(f)) => Err(f),
        Err(e) => Err(Failure::new("skipped-panic", panic_message(e))),
    }
}

fn check_layout(case: &LayoutCase) -> Result<CaseInfo, Failure> {
    let identity: Vec<usize> = (0..MENU_N).collect();
    let mut perm = permutation(0, &case.perm_a);
    perm.extend(permutation(COPY_N, &case.perm_b));
    let o1 = match run_layout(case, &identity) {
        Ok(o) => o,
        Err(f) if f.signature == "skipped-panic" => {
            return Ok(CaseInfo { nontrivial: false, labels: vec!["skipped_builder_panicked"], counters: vec![] })
        }
        Err(f) => return Err(f),
    };
    let o2 = match run_layout(case, &perm) {
        Ok(o) => o,
        Err(f) if f.signature == "skipped-panic" => {
            return Err(Failure::new(
                "host-dependent-panic",
                format!("the same history panics when host types are permuted ({:?}): {}", perm, f.message),
            ))
        }
        Err(f) => return Err(f),
    };
    if o1 != o2 {
        return Err(Failure::new(
            "layout-depends-on-host",
            format!(
                "same resolver answers, host types permuted by {:?}: layouts differ\n first : {:?}\n second: {:?}",
                perm, o1.closes, o2.closes
            ),
        ));
    }
    let o3 = match run_explicit(case, &o1.infos) {
        Ok(o) => o,
        Err(f) => return Err(Failure::new("explicit-replay-failed", f.message)),
    };
    if o3 != o1.closes {
        return Err(Failure::new(
            "layout-differs-from-explicit",
            format!("layout under the synthetic resolver {:?} differs from the layout of the same sizes/alignments entered explicitly {:?}", o1.closes, o3),
        ));
    }
    // non-trivial: an answered size or alignment differs from the host's and a swapped type with a
    // different host layout is actually used
    let mut differs = false;
    let mut entries = std::collections::BTreeSet::new();
    for req in &case.reqs {
        if let Req18::Add { ty, entry } = req {
            let a = *ty as usize % MENU_N;
            let h1 = host_info(a);
            let h2 = host_info(perm[a]);
            if (h1.size, h1.align) != case.answers[a] && (h1.size, h1.align) != (h2.size, h2.align) {
                differs = true;
            }
            entries.insert(match entry {
                Entry::Typed => "entry_typed",
                Entry::TypedUninit => "entry_typed_uninit",
                Entry::Dynamic => "entry_dynamic",
                Entry::Override { .. } => "entry_override",
                Entry::Copy => "entry_copy",
            });
        }
    }
    let mut labels: Vec<&'static str> = entries.into_iter().collect();
    labels.push("layout_case");
    if o1.closes.len() >= 3 {
        labels.push("ge3_variants");
    }
    Ok(CaseInfo {
        nontrivial: differs && o1.closes.len() >= 2 && o1.infos.len() >= 3,
        labels,
        counters: vec![],
    })
}

// ---------------------------------------------------------------------------------------------
// Tables

const CUSTOM_N: usize = 11;

/// User types whose names contain characters JSON must escape.
pub struct Sep<const C: char>;

macro_rules! with_custom_type {
    ($idx:expr, $t:ident => $body:expr) => {
        match $idx {
            0 => { type $t = (u8, u32); $body }
            1 => { type $t = Vec<u8>; $body }
            2 => { type $t = Vec<String>; $body }
            3 => { type $t = Box<[u8]>; $body }
            4 => { type $t = Result<u8, String>; $body }
            5 => { type $t = [u8; 11]; $body }
            6 => { type $t = ((),); $body }
            7 => { type $t = Option<Box<u64>>; $body }
            8 => { type $t = Sep<'\t'>; $body }
            9 => { type $t = Sep<'"'>; $body }
            _ => { type $t = Vec<Sep<'\\'>>; $body }
        }
    };
}

fn custom_is_copy(idx: usize) -> bool {
    matches!(idx, 0 | 5 | 6)
}

fn respell(name: &str, spaces: &[u8]) -> String {
    // insert / remove whitespace at token boundaries (the recorded name is a token stream
    // separated by single spaces)
    let toks: Vec<&str> = name.split_whitespace().collect();
    let mut s = String::new();
    for (i, t) in toks.iter().enumerate() {
        s.push_str(t);
        if i + 1 < toks.len() {
            let n = spaces[i % spaces.len()] as usize;
            let next = toks[i + 1];
            let ident_like = |x: &str| x.chars().last().map_or(false, |c| c.is_alphanumeric() || c == '_');
            let ident_start = |x: &str| x.chars().next().map_or(false, |c| c.is_alphanumeric() || c == '_');
            let need = ident_like(t) && ident_start(next);
            for _ in 0..(if need { n.max(1) } else { n }) {
                s.push(' ');
            }
        }
    }
    s
}

fn same_dyn(a: &DynamicTypeInfo, b: &DynamicTypeInfo) -> bool {
    a.info == b.info && a.allow_uninit == b.allow_uninit
}

/// The table of a platform whose machine word has `word` bytes (figures that are not the host's).
pub fn foreign_map(word: usize) -> BTreeMap<String, DynamicTypeInfo> {
    let mut map = BTreeMap::new();
    let mut put = |name: &str, size: usize, align: usize, uninit: bool| {
        map.insert(name.to_string(), DynamicTypeInfo { info: TypeInfo { name: name.to_string(), size, align }, allow_uninit: uninit });
    };
    put(&HostTypeResolver.type_info::<usize>().name, word, word, true);
    put(&HostTypeResolver.type_info::<u64>().name, 8, word.min(8), true);
    put(&HostTypeResolver.type_info::<u32>().name, 4, word.min(4), true);
    put(&HostTypeResolver.type_info::<String>().name, 3 * word, word, false);
    put(&HostTypeResolver.type_info::<Vec<()>>().name, 3 * word, word, false);
    put(&HostTypeResolver.type_info::<Box<str>>().name, 2 * word, word, false);
    map
}

fn check_table(case: &TableCase) -> Result<CaseInfo, Failure> {
    let mut custom: Vec<usize> = Vec::new();
    for c in &case.custom {
        let c = *c as usize % CUSTOM_N;
        if !custom.contains(&c) {
            custom.push(c);
        }
    }
    let build = || {
        let mut r = StaticTypeResolver::new();
        if case.std_first {
            r.add_std_types();
        }
        for (i, &c) in custom.iter().enumerate() {
            let uninit = custom_is_copy(c) && (case.uninit_flags >> i) & 1 == 1;
            if uninit {
                match c {
                    0 => r.add_type_allow_uninit::<(u8, u32)>(),
                    5 => r.add_type_allow_uninit::<[u8; 11]>(),
                    _ => r.add_type_allow_uninit::<((),)>(),
                }
            } else {
                with_custom_type!(c, T => r.add_type::<T>());
            }
        }
        if !case.std_first {
            r.add_std_types();
        }
        r
    };
    let resolver = catch_unwind(AssertUnwindSafe(build))
        .map_err(|e| Failure::new("registration-panicked", panic_message(e)))?;

    let checked = std::cell::Cell::new(0u64);
    let failure: std::cell::RefCell<Option<Failure>> = std::cell::RefCell::new(None);

    // registered custom types answer what was registered
    for (i, &c) in custom.iter().enumerate() {
        let uninit = custom_is_copy(c) && (case.uninit_flags >> i) & 1 == 1;
        let (host, got) = with_custom_type!(c, T => (HostTypeResolver.type_info::<T>(), catch_unwind(AssertUnwindSafe(|| resolver.type_info::<T>()))));
        let got = got.map_err(|e| Failure::new("lookup-panicked", format!("type_info of registered {}: {}", host.name, panic_message(e))))?;
        if got != host {
            return Err(Failure::new("table-answer-differs", format!("registered {:?}, table answers {:?}", host, got)));
        }
        for spelled in [respell(&host.name, &case.spaces), with_custom_type!(c, T => std::any::type_name::<T>().to_string())] {
            let d = catch_unwind(AssertUnwindSafe(|| resolver.dynamic_type_info(&spelled)))
                .map_err(|e| Failure::new("lookup-panicked", format!("dynamic lookup of {:?}: {}", spelled, panic_message(e))))?;
            if d.info != host || d.allow_uninit != uninit {
                return Err(Failure::new(
                    "table-answer-differs",
                    format!("dynamic lookup of {:?} answers {:?}, registered {:?} uninit={}", spelled, d, host, uninit),
                ));
            }
            checked.set(checked.get() + 1);
        }
    }

    // a type that was never registered has no answer (falling back to the host's own size and
    // alignment would make the layout depend on the host)
    for c in 0..CUSTOM_N {
        if custom.contains(&c) {
            continue;
        }
        let (host, got) = with_custom_type!(c, T => (HostTypeResolver.type_info::<T>(), catch_unwind(AssertUnwindSafe(|| resolver.type_info::<T>()))));
        if let Ok(info) = got {
            return Err(Failure::new(
                "unregistered-type-answered",
                format!("type {} was never registered in the table, yet the table answers {:?}", host.name, info),
            ));
        }
        checked.set(checked.get() + 1);
    }

    // every type of the standard table agrees with the host resolver
    let check_std = |host: TypeInfo, got: std::thread::Result<TypeInfo>| {
        checked.set(checked.get() + 1);
        if failure.borrow().is_some() {
            return;
        }
        match got {
            Err(e) => {
                *failure.borrow_mut() = Some(Failure::new("lookup-panicked", format!("type_info of standard type {}: {}", host.name, panic_message(e))))
            }
            Ok(got) if got != host => {
                *failure.borrow_mut() = Some(Failure::new("std-table-differs-from-host", format!("host says {:?}, table says {:?}", host, got)))
            }
            _ => {}
        }
    };
    {
        let resolver = &resolver;
        let check_std = &check_std;
        fn one<T>(resolver: &StaticTypeResolver, check_std: &dyn Fn(TypeInfo, std::thread::Result<TypeInfo>)) {
            check_std(
                HostTypeResolver.type_info::<T>(),
                catch_unwind(AssertUnwindSafe(|| resolver.type_info::<T>())),
            );
        }
        // expand the standard table
        macro_rules! call_one {
            ($t:ty) => { one::<$t>(resolver, check_std) };
        }
        macro_rules! opt { ($t:ty) => { call_one!($t); call_one!(Option<$t>); }; }
        macro_rules! arr {
            ($t:ty) => {
                opt!($t); opt!([$t; 1]); opt!([$t; 2]); opt!([$t; 3]); opt!([$t; 4]); opt!([$t; 5]);
                opt!([$t; 6]); opt!([$t; 7]); opt!([$t; 8]); opt!([$t; 9]); opt!([$t; 10]);
            };
        }
        arr!(u8); arr!(u16); arr!(u32); arr!(u64); arr!(u128); arr!(usize);
        arr!(i8); arr!(i16); arr!(i32); arr!(i64); arr!(i128); arr!(isize);
        arr!(f32); arr!(f64); arr!(char); arr!(bool); arr!(String); arr!(Box<str>); arr!(Vec<()>);
    }
    if let Some(f) = failure.borrow_mut().take() {
        return Err(f);
    }

    // JSON round trips
    let forms: Vec<(&str, Result<BTreeMap<String, DynamicTypeInfo>, String>)> = vec![
        (
            "to_json_string",
            resolver.to_json_string().map_err(|e| e.to_string()).and_then(|s| serde_json::from_str(&s).map_err(|e| e.to_string())),
        ),
        (
            "to_json_string_pretty",
            resolver.to_json_string_pretty().map_err(|e| e.to_string()).and_then(|s| serde_json::from_str(&s).map_err(|e| e.to_string())),
        ),
        (
            "to_json_value",
            resolver.to_json_value().map_err(|e| e.to_string()).and_then(|v| serde_json::from_value(v).map_err(|e| e.to_string())),
        ),
    ];
    let mut keys_checked = 0u64;
    for (what, map) in forms {
        let map = map.map_err(|e| Failure::new("json-roundtrip-failed", format!("{}: {}", what, e)))?;
        let keys: Vec<String> = map.keys().cloned().collect();
        let expected_len = 19 * 11 * 2 + custom.len();
        if keys.len() != expected_len {
            return Err(Failure::new("json-entry-count", format!("{}: {} entries, {} registered", what, keys.len(), expected_len)));
        }
        let back = StaticTypeResolver::from(map);
        for k in &keys {
            let a = catch_unwind(AssertUnwindSafe(|| resolver.dynamic_type_info(k)));
            let b = catch_unwind(AssertUnwindSafe(|| back.dynamic_type_info(k)));
            match (a, b) {
                (Ok(a), Ok(b)) if same_dyn(&a, &b) => keys_checked += 1,
                (a, b) => {
                    return Err(Failure::new(
                        "json-roundtrip-differs",
                        format!("{}: key {:?}: original answers {:?}, table read back answers {:?}", what, k, a.ok(), b.ok()),
                    ))
                }
            }
        }
    }
    // a table loaded from a map whose keys are aliases: the answer is the registered entry, not the key
    {
        let mut map: BTreeMap<String, DynamicTypeInfo> = BTreeMap::new();
        let aliases = [("int", "i64", 8usize, 8usize, true), ("text", "String", 12, 4, false), ("tags", "Vec < String >", 12, 4, false), ("id", "[u8 ; 16]", 16, 1, true)];
        for (key, name, size, align, uninit) in aliases {
            map.insert(key.to_string(), DynamicTypeInfo { info: TypeInfo { name: name.to_string(), size, align }, allow_uninit: uninit });
        }
        let table = StaticTypeResolver::from(map);
        let json = table.to_json_string().map_err(|e| Failure::new("json-roundtrip-failed", e.to_string()))?;
        let back: BTreeMap<String, DynamicTypeInfo> = serde_json::from_str(&json).map_err(|e| Failure::new("json-roundtrip-failed", e.to_string()))?;
        let back = StaticTypeResolver::from(back);
        for t in [&table, &back] {
            for (key, name, size, align, uninit) in aliases {
                let spelled = respell(key, &case.spaces);
                let d = catch_unwind(AssertUnwindSafe(|| t.dynamic_type_info(&spelled)))
                    .map_err(|e| Failure::new("lookup-panicked", format!("dynamic lookup of alias {:?}: {}", key, panic_message(e))))?;
                if d.info.name != name || d.info.size != size || d.info.align != align || d.allow_uninit != uninit {
                    return Err(Failure::new(
                        "table-answer-differs",
                        format!("table entry registered under the key {:?} as ({}, size {}, align {}, uninit {}) is answered as {:?}", key, name, size, align, uninit, d),
                    ));
                }
                checked.set(checked.get() + 1);
            }
        }
    }
    // a table made on another platform (figures that are not the host's), loaded from its map
    {
        let answers = |t: &StaticTypeResolver| -> Result<Vec<TypeInfo>, Failure> {
            catch_unwind(AssertUnwindSafe(|| {
                vec![t.type_info::<usize>(), t.type_info::<u64>(), t.type_info::<u32>(), t.type_info::<String>(), t.type_info::<Vec<()>>(), t.type_info::<Box<str>>()]
            }))
            .map_err(|e| Failure::new("lookup-panicked", format!("typed lookups in a table loaded from a map: {}", panic_message(e))))
        };
        let expected = |word: usize| -> Vec<TypeInfo> {
            let m = foreign_map(word);
            [
                HostTypeResolver.type_info::<usize>().name,
                HostTypeResolver.type_info::<u64>().name,
                HostTypeResolver.type_info::<u32>().name,
                HostTypeResolver.type_info::<String>().name,
                HostTypeResolver.type_info::<Vec<()>>().name,
                HostTypeResolver.type_info::<Box<str>>().name,
            ]
            .iter()
            .map(|n| m[n].info.clone())
            .collect()
        };
        // the same variable holds, one after the other, tables of platforms with words of 2, 4 and 16 bytes:
        // each answers its own figures, whatever an earlier table (at the same address) answered
        let words = [2usize, 4, 16];
        let first = case.spaces.first().copied().unwrap_or(0) as usize % 3;
        let mut table = StaticTypeResolver::from(foreign_map(words[first]));
        for round in 0..3 {
            let word = words[(round + first) % 3];
            if round > 0 {
                table = StaticTypeResolver::from(foreign_map(word));
            }
            let got = answers(&table)?;
            if got != expected(word) {
                return Err(Failure::new(
                    "table-answer-differs",
                    format!("a table loaded from a map (word size {}) answers {:?}, registered {:?}", word, got, expected(word)),
                ));
            }
            checked.set(checked.get() + 6);
        }
        // completing the table with the standard types may be refused (the names are taken), but it never
        // changes what was registered
        let word = words[(2 + first) % 3];
        let completed = catch_unwind(AssertUnwindSafe(|| {
            if case.std_first {
                table.add_std_types();
            } else {
                table.add_all_types();
            }
        }));
        let got = answers(&table)?;
        if got != expected(word) {
            return Err(Failure::new(
                "table-answer-differs",
                format!(
                    "a table loaded from a map (word size {}) answers {:?} after add_{}_types() ({}), it had registered {:?}",
                    word,
                    got,
                    if case.std_first { "std" } else { "all" },
                    if completed.is_ok() { "which returned" } else { "which panicked" },
                    expected(word)
                ),
            ));
        }
        checked.set(checked.get() + 6);
        // a builder that owns such a table records, for a copied datum, the information of the datum (not the table's)
        let mut b = NativeRecordDefinitionBuilder::new(StaticTypeResolver::from(foreign_map(word)));
        let given = TypeInfo { name: HostTypeResolver.type_info::<u64>().name, size: 8, align: 8 };
        let id = catch_unwind(AssertUnwindSafe(|| {
            b.copy_datum(&DatumDefinition::new(DatumId::from(0usize), "copied".to_string(), NativeDatumDetails::new(0, given.clone(), true)))
        }))
        .map_err(|e| Failure::new("lookup-panicked", format!("copy_datum under an owned table: {}", panic_message(e))))?
        .map_err(|e| Failure::new("type-info-differs", format!("copy_datum refused: {}", e)))?;
        let recorded = b[id].details().type_info().clone();
        if recorded != given || !b[id].details().allow_uninit() {
            return Err(Failure::new(
                "type-info-differs",
                format!("datum copied with {:?} under a builder owning a table that says otherwise for that name records {:?}", given, recorded),
            ));
        }
        checked.set(checked.get() + 1);
    }
    Ok(CaseInfo {
        nontrivial: custom.len() >= 2,
        labels: vec!["table_case"],
        counters: vec![("table_lookups", checked.get()), ("json_keys_compared", keys_checked)],
    })
}

pub fn check_c18(case: &Case18) -> Result<CaseInfo, Failure> {
    match case {
        Case18::Layout(c) => check_layout(c),
        Case18::Table(c) => check_table(c),
    }
}

pub fn replay(case: &Value) -> Result<(), Failure> {
    let c: Case18 = serde_json::from_value(case.clone())
        .map_err(|e| Failure::new("bad-replay-file", e.to_string()))?;
    check_c18(&c).map(|_| ())
}

pub fn run_c18(seed: u64, cases: u64, threads: usize) -> (Outcome, String) {
    (
        run_prop(seed, cases, threads, case18, check_c18),
        "layout cases (30/31): histories over a 12-type host menu entered through add_datum, add_datum_allow_uninit, \
         add_dynamic_datum, add_datum_override and copy_datum under a synthetic resolver answering generated (size, align) \
         per type; (i) the recorded type info / uninit flag equals the resolver's answer or the override, (ii) metamorphic: \
         permuting the host types while keeping the answers gives the identical layout, (iii) differential: identical to the \
         layout of the same answers entered explicitly. table cases (1/31): StaticTypeResolver with the standard table and a \
         generated subset/order of 8 custom types; registered answers, agreement with HostTypeResolver on all 418 standard \
         types, lookups by re-spaced and fully-qualified spellings, JSON round trips (string, pretty, value). non-trivial: \
         layout case using a type whose answer differs from the host's and from its swapped type's host layout, >= 2 \
         closes, >= 3 data; table case with >= 2 custom types; distinct by hash of the case"
            .into(),
    )
}
