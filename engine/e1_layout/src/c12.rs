//! C12: a variant is its predecessor minus removals plus additions; invalid requests are rejected
//! and leave the observable state unchanged. Adversarial histories against a reference model,
//! for the generic and the native builder.

use std::{
    collections::BTreeSet,
    panic::{catch_unwind, AssertUnwindSafe},
};

use proptest::prelude::*;
use serde::{Deserialize, Serialize};
use serde_json::Value;
use truc::record::{
    definition::{
        builder::{
            generic::{variant as gvariant, GenericRecordDefinitionBuilder},
            native::{DatumDefinitionOverride, NativeRecordDefinitionBuilder},
        },
        DatumDefinition, DatumId, NativeDatumDetails, RecordVariantId,
    },
    type_resolver::{DynamicTypeInfo, HostTypeResolver, TypeInfo, TypeResolver},
};
use vcore::*;

const POOL: [&str; 8] = ["alpha", "beta", "gamma", "delta", "eps", "zeta", "r#type", "r#match"];

#[derive(Clone, Debug, Serialize, Deserialize, PartialEq, Eq, Hash)]
pub enum AdvReq {
    /// Add with a name from the pool (clashes possible) or a fresh one.
    /// `via`: entry point of the native builder (0 complete override, 1 copy_datum, 2 add_dynamic_datum,
    /// 3 add_datum::<T>, 4 add_datum_allow_uninit::<T>, 5 override of the name only).
    Add {
        name: Option<u8>,
        size: usize,
        align: usize,
        uninit: bool,
        #[serde(default)]
        via: u8,
    },
    /// Remove one of the current data.
    RemoveCurrent { sel: u16 },
    /// Remove up to `count` of the current data, walking the current list backwards from the selected one.
    RemoveBurst { sel: u16, count: u8 },
    /// Remove any id issued so far (stale, pending, twice removed, ...).
    RemoveIssued { sel: u16 },
    /// Remove an id that was never issued.
    RemoveUnknown { beyond: u8 },
    Close { strat: Strat },
}

#[derive(Clone, Debug, Serialize, Deserialize, PartialEq, Eq, Hash)]
pub struct AdvHistory {
    pub native: bool,
    pub reqs: Vec<AdvReq>,
    /// Whether to call `build()` at the end even with pending changes (must panic then).
    pub build_anyway: bool,
    pub final_strat: Strat,
    /// Only the verdict of every request is compared with the model while the history runs; the observable
    /// state (which includes many look-ups by name) is compared once, at the end. Observing after every
    /// request could hide a builder that is wrong only when it is left alone between two requests.
    #[serde(default)]
    pub quiet: bool,
}

fn adv_req() -> impl Strategy<Value = AdvReq> {
    prop_oneof![
        10 => (prop::option::weighted(0.7, 0u8..8), shape_strategy(), any::<bool>(), prop_oneof![3 => Just(0u8), 3 => 1u8..6])
            .prop_map(|(name, (size, align), uninit, via)| AdvReq::Add { name, size, align, uninit, via }),
        4 => any::<u16>().prop_map(|sel| AdvReq::RemoveCurrent { sel }),
        1 => (any::<u16>(), 2u8..70).prop_map(|(sel, count)| AdvReq::RemoveBurst { sel, count }),
        3 => any::<u16>().prop_map(|sel| AdvReq::RemoveIssued { sel }),
        1 => (0u8..4).prop_map(|beyond| AdvReq::RemoveUnknown { beyond }),
        5 => strat_strategy().prop_map(|strat| AdvReq::Close { strat }),
    ]
}

fn adv_history() -> impl Strategy<Value = AdvHistory> {
    (
        any::<bool>(),
        prop_oneof![
            3600 => prop::collection::vec(adv_req(), 0..40).boxed(),
            600 => prop::collection::vec(adv_req(), 40..160).boxed(),
            // a first variant with more than 64 data, then the usual requests
            300 => (66usize..90, strat_strategy(), prop::collection::vec(adv_req(), 0..40))
                .prop_map(|(n, strat, rest)| {
                    let mut reqs: Vec<AdvReq> = (0..n)
                        .map(|i| AdvReq::Add { name: None, size: 1 << (i % 4), align: 1 << (i % 4), uninit: i % 2 == 0, via: (i % 6) as u8 })
                        .collect();
                    reqs.push(AdvReq::Close { strat });
                    reqs.extend(rest);
                    reqs
                })
                .boxed(),
            // counters that wrap: a named datum, then a run of 253..258 or 509..514 accepted removals and closes
            // (around 2^8 and 2^9 changes), then the same name again (a duplicate) and the usual requests
            1 => (
                0u8..8,
                prop_oneof![253usize..259, 509usize..515],
                prop::collection::vec(prop_oneof![9 => (0u16..0x7000).prop_map(|sel| AdvReq::RemoveCurrent { sel }), 1 => strat_strategy().prop_map(|strat| AdvReq::Close { strat })], 515),
                strat_strategy(),
                prop::collection::vec(adv_req(), 0..10),
            )
                .prop_map(|(name, run, changes, strat, rest)| {
                    let mut reqs: Vec<AdvReq> = (0..run + 40)
                        .map(|i| AdvReq::Add { name: None, size: 1 << (i % 3), align: 1 << (i % 3), uninit: i % 2 == 0, via: 0 })
                        .collect();
                    reqs.push(AdvReq::Close { strat });
                    reqs.push(AdvReq::Add { name: Some(name), size: 4, align: 4, uninit: false, via: 0 });
                    // every request of the run is accepted: a close right after a close would be a no-op
                    let mut last_was_close = false;
                    let mut accepted = 0;
                    for c in changes {
                        if accepted == run {
                            break;
                        }
                        if matches!(c, AdvReq::Close { .. }) {
                            if last_was_close {
                                continue;
                            }
                            last_was_close = true;
                        } else {
                            last_was_close = false;
                        }
                        reqs.push(c);
                        accepted += 1;
                    }
                    reqs.push(AdvReq::Add { name: Some(name), size: 4, align: 4, uninit: false, via: 0 });
                    reqs.extend(rest);
                    reqs
                })
                .boxed(),
        ],
        prop::bool::weighted(0.3),
        strat_strategy(),
        prop::bool::weighted(0.15),
    )
        .prop_map(|(native, reqs, build_anyway, final_strat, quiet)| AdvHistory {
            native,
            // the long runs are always left alone
            quiet: quiet || reqs.len() > 280,
            reqs,
            build_anyway,
            final_strat,
        })
}

// ---------------------------------------------------------------------------------------------
// Builder abstraction

trait Sut {
    fn add(&mut self, name: &str, size: usize, align: usize, uninit: bool, via: u8) -> Result<DatumId, String>;
    fn remove(&mut self, id: DatumId) -> Result<(), String>;
    fn close(&mut self, strat: Strat) -> RecordVariantId;
    fn current(&self) -> Vec<DatumId>;
    fn current_by_name(&self, name: &str) -> Option<DatumId>;
    fn variant_by_name(&self, v: usize, name: &str) -> Option<DatumId>;
    /// `None` when the variant does not exist.
    fn variant_data(&self, v: usize) -> Option<Vec<DatumId>>;
    /// `None` when the datum does not exist.
    fn datum_name(&self, k: usize) -> Option<String>;
    /// (variants as id lists, names by id) of the built definition.
    fn build(self: Box<Self>) -> (Vec<Vec<usize>>, Vec<String>);
}

struct GenericSut(GenericRecordDefinitionBuilder<u32>);

impl Sut for GenericSut {
    fn add(&mut self, name: &str, size: usize, _align: usize, _uninit: bool, _via: u8) -> Result<DatumId, String> {
        self.0.add_datum(name, size as u32)
    }
    fn remove(&mut self, id: DatumId) -> Result<(), String> {
        self.0.remove_datum(id)
    }
    fn close(&mut self, strat: Strat) -> RecordVariantId {
        match strat {
            Strat::Simple | Strat::Append => self.0.close_record_variant_with(gvariant::append_data),
            _ => self.0.close_record_variant_with(gvariant::append_data_reverse),
        }
    }
    fn current(&self) -> Vec<DatumId> {
        self.0.get_current_data().collect()
    }
    fn current_by_name(&self, name: &str) -> Option<DatumId> {
        self.0.get_current_datum_definition_by_name(name).map(|d| d.id())
    }
    fn variant_by_name(&self, v: usize, name: &str) -> Option<DatumId> {
        self.0
            .get_variant_datum_definition_by_name(RecordVariantId::from(v), name)
            .map(|d| d.id())
    }
    fn variant_data(&self, v: usize) -> Option<Vec<DatumId>> {
        self.0.get_variant(RecordVariantId::from(v)).map(|v| v.data().collect())
    }
    fn datum_name(&self, k: usize) -> Option<String> {
        self.0.get_datum_definition(DatumId::from(k)).map(|d| d.name().to_string())
    }
    fn build(self: Box<Self>) -> (Vec<Vec<usize>>, Vec<String>) {
        let def = self.0.build();
        (
            def.variants().map(|v| v.data().map(datum_index).collect()).collect(),
            def.datum_definitions().map(|d| d.name().to_string()).collect(),
        )
    }
}

static HOST: KeyResolver = KeyResolver;

/// Host resolver for typed requests; dynamic keys `S<size>A<align>U<0|1>` answer what they say.
pub struct KeyResolver;

impl TypeResolver for KeyResolver {
    fn type_info<T>(&self) -> TypeInfo {
        HostTypeResolver.type_info::<T>()
    }
    fn dynamic_type_info(&self, key: &str) -> DynamicTypeInfo {
        let (s, rest) = key[1..].split_once('A').expect("key");
        let (a, u) = rest.split_once('U').expect("key");
        let (size, align) = (s.parse().expect("size"), a.parse().expect("align"));
        DynamicTypeInfo { info: TypeInfo { name: type_name_of(size, align), size, align }, allow_uninit: u == "1" }
    }
}

struct NativeSut(NativeRecordDefinitionBuilder<&'static KeyResolver>);

impl Sut for NativeSut {
    fn add(&mut self, name: &str, size: usize, align: usize, uninit: bool, via: u8) -> Result<DatumId, String> {
        match via {
            1 => {
                return self.0.copy_datum(&DatumDefinition::new(
                    DatumId::from(0usize),
                    name.to_string(),
                    NativeDatumDetails::new(0, TypeInfo { name: type_name_of(size, align), size, align }, uninit),
                ))
            }
            2 => return self.0.add_dynamic_datum(name, format!("S{}A{}U{}", size, align, uninit as u8)),
            3 => return if size % 2 == 0 { self.0.add_datum::<String, _>(name) } else { self.0.add_datum::<u16, _>(name) },
            4 => return if size % 2 == 0 { self.0.add_datum_allow_uninit::<u64, _>(name) } else { self.0.add_datum_allow_uninit::<[u8; 3], _>(name) },
            5 => {
                return self.0.add_datum_override::<Vec<()>, _>(
                    name,
                    DatumDefinitionOverride { type_name: Some("Vec<u32>".to_string()), size: None, align: None, allow_uninit: None },
                )
            }
            _ => {}
        }
        self.0.add_datum_override::<(), _>(
            name,
            DatumDefinitionOverride {
                type_name: Some(type_name_of(size, align)),
                size: Some(size),
                align: Some(align),
                allow_uninit: Some(uninit),
            },
        )
    }
    fn remove(&mut self, id: DatumId) -> Result<(), String> {
        self.0.remove_datum(id)
    }
    fn close(&mut self, strat: Strat) -> RecordVariantId {
        close_with(&mut self.0, strat)
    }
    fn current(&self) -> Vec<DatumId> {
        self.0.get_current_data().collect()
    }
    fn current_by_name(&self, name: &str) -> Option<DatumId> {
        self.0.get_current_datum_definition_by_name(name).map(|d| d.id())
    }
    fn variant_by_name(&self, v: usize, name: &str) -> Option<DatumId> {
        self.0
            .get_variant_datum_definition_by_name(RecordVariantId::from(v), name)
            .map(|d| d.id())
    }
    fn variant_data(&self, v: usize) -> Option<Vec<DatumId>> {
        catch_unwind(AssertUnwindSafe(|| {
            self.0[RecordVariantId::from(v)].data().collect::<Vec<_>>()
        }))
        .ok()
    }
    fn datum_name(&self, k: usize) -> Option<String> {
        catch_unwind(AssertUnwindSafe(|| self.0[DatumId::from(k)].name().to_string())).ok()
    }
    fn build(self: Box<Self>) -> (Vec<Vec<usize>>, Vec<String>) {
        let def = self.0.build();
        (
            def.variants().map(|v| v.data().map(datum_index).collect()).collect(),
            def.datum_definitions().map(|d| d.name().to_string()).collect(),
        )
    }
}

// ---------------------------------------------------------------------------------------------
// Model

#[derive(Default, Debug)]
struct Model {
    names: Vec<String>,
    variants: Vec<BTreeSet<usize>>,
    pending_add: Vec<usize>,
    pending_remove: Vec<usize>,
}

impl Model {
    fn current(&self) -> BTreeSet<usize> {
        let mut s: BTreeSet<usize> = self
            .variants
            .last()
            .map(|v| v.iter().copied().filter(|d| !self.pending_remove.contains(d)).collect())
            .unwrap_or_default();
        s.extend(self.pending_add.iter().copied());
        s
    }
    fn add_ok(&self, name: &str) -> bool {
        !self.current().iter().any(|&d| self.names[d] == name)
    }
    /// Ok(kind of success) or Err(kind of rejection)
    fn remove_verdict(&self, id: usize) -> Result<(), &'static str> {
        let in_last = self.variants.last().map_or(false, |v| v.contains(&id));
        if in_last {
            if self.pending_remove.contains(&id) {
                Err("remove_twice")
            } else {
                Ok(())
            }
        } else if self.pending_add.contains(&id) {
            Ok(())
        } else if id >= self.names.len() {
            Err("remove_unknown")
        } else {
            Err("remove_absent")
        }
    }
    fn has_pending(&self) -> bool {
        self.variants.is_empty() || !self.pending_add.is_empty() || !self.pending_remove.is_empty()
    }
}

#[derive(PartialEq, Eq, Debug, Clone)]
struct Snapshot {
    current: Vec<usize>,
    current_names: Vec<Option<usize>>,
    variant_names: Vec<Vec<Option<usize>>>,
    variants: Vec<Vec<usize>>,
    next_variant_absent: bool,
    next_datum_absent: bool,
    names: Vec<Option<String>>,
}

fn snapshot(sut: &dyn Sut, model: &Model, fresh_names: &[String]) -> Snapshot {
    let n_variants = model.variants.len();
    let mut all_names: Vec<String> = POOL.iter().map(|s| s.to_string()).collect();
    all_names.extend(fresh_names.iter().cloned());
    Snapshot {
        current: sut.current().into_iter().map(datum_index).collect(),
        current_names: all_names.iter().map(|n| sut.current_by_name(n).map(datum_index)).collect(),
        variant_names: (0..n_variants + 1)
            .map(|v| all_names.iter().map(|n| sut.variant_by_name(v, n).map(datum_index)).collect())
            .collect(),
        variants: (0..n_variants)
            .map(|v| sut.variant_data(v).unwrap_or_default().into_iter().map(datum_index).collect())
            .collect(),
        next_variant_absent: sut.variant_data(n_variants).is_none(),
        next_datum_absent: sut.datum_name(model.names.len()).is_none(),
        names: (0..model.names.len()).map(|k| sut.datum_name(k)).collect(),
    }
}

fn fail(sig: &str, step: usize, req: &AdvReq, msg: String) -> Failure {
    Failure::new(sig, format!("request #{} {:?}: {}", step, req, msg))
}

/// Checks the observable state against the model.
fn agree(sut: &dyn Sut, model: &Model, step: usize, req: &AdvReq) -> Result<(), Failure> {
    let cur: Vec<usize> = sut.current().into_iter().map(datum_index).collect();
    let cur_set: BTreeSet<usize> = cur.iter().copied().collect();
    if cur_set.len() != cur.len() {
        return Err(fail("current-duplicate", step, req, format!("get_current_data() lists a datum twice: {:?}", cur)));
    }
    if cur_set != model.current() {
        return Err(fail(
            "current-differs",
            step,
            req,
            format!("get_current_data() = {:?}, expected {:?}", cur_set, model.current()),
        ));
    }
    // by-name lookups in the current variant
    for &d in &model.current() {
        let name = &model.names[d];
        if sut.current_by_name(name).map(datum_index) != Some(d) {
            return Err(fail(
                "lookup-current",
                step,
                req,
                format!("current lookup of {:?} gives {:?}, expected datum {}", name, sut.current_by_name(name), d),
            ));
        }
    }
    for (v, set) in model.variants.iter().enumerate() {
        let data: BTreeSet<usize> = match sut.variant_data(v) {
            Some(d) => d.into_iter().map(datum_index).collect(),
            None => return Err(fail("variant-missing", step, req, format!("variant {} does not exist", v))),
        };
        if &data != set {
            return Err(fail(
                "variant-differs",
                step,
                req,
                format!("closed variant {} holds {:?}, expected {:?}", v, data, set),
            ));
        }
        for &d in set {
            let name = &model.names[d];
            if sut.variant_by_name(v, name).map(datum_index) != Some(d) {
                return Err(fail(
                    "lookup-variant",
                    step,
                    req,
                    format!("lookup of {:?} in variant {} gives {:?}, expected datum {}", name, v, sut.variant_by_name(v, name), d),
                ));
            }
        }
    }
    if sut.variant_data(model.variants.len()).is_some() {
        return Err(fail("extra-variant", step, req, format!("a variant {} exists that no close created", model.variants.len())));
    }
    for (k, n) in model.names.iter().enumerate() {
        if sut.datum_name(k).as_deref() != Some(n.as_str()) {
            return Err(fail("datum-name", step, req, format!("datum {} is named {:?}, expected {:?}", k, sut.datum_name(k), n)));
        }
    }
    Ok(())
}

pub fn check_c12(h: &AdvHistory) -> Result<CaseInfo, Failure> {
    let mut sut: Box<dyn Sut> = if h.native {
        Box::new(NativeSut(NativeRecordDefinitionBuilder::new(&HOST)))
    } else {
        Box::new(GenericSut(GenericRecordDefinitionBuilder::new()))
    };
    let mut model = Model::default();
    let mut fresh: Vec<String> = Vec::new();
    let mut rejected: BTreeSet<&'static str> = BTreeSet::new();
    let mut noop_closes = 0u64;
    let mut max_id: Option<usize> = None;
    let mut issued: BTreeSet<usize> = BTreeSet::new();

    let dummy = AdvReq::Close { strat: h.final_strat };

    macro_rules! guarded {
        ($step:expr, $req:expr, $e:expr) => {
            match catch_unwind(AssertUnwindSafe(|| $e)) {
                Ok(v) => v,
                Err(e) => {
                    return Err(fail("request-panicked", $step, $req, format!("panicked: {}", panic_message(e))));
                }
            }
        };
    }

    for (step, req) in h.reqs.iter().enumerate() {
        match req {
            AdvReq::Add { name, size, align, uninit, via } => {
                let name = match name {
                    Some(k) => POOL[*k as usize % POOL.len()].to_string(),
                    None => {
                        let n = format!("fresh_{}", fresh.len());
                        fresh.push(n.clone());
                        n
                    }
                };
                let expect_ok = model.add_ok(&name);
                let before = if expect_ok || h.quiet { None } else { Some(snapshot(&*sut, &model, &fresh)) };
                let res = guarded!(step, req, sut.add(&name, *size, *align, *uninit, *via));
                match (res, expect_ok) {
                    (Ok(id), true) => {
                        let k = datum_index(id);
                        if !issued.insert(k) {
                            return Err(fail("id-reused", step, req, format!("datum id {} was already returned by an earlier request", k)));
                        }
                        max_id = Some(max_id.map_or(k, |m: usize| m.max(k)));
                        // ids are only required to be fresh; keep the model aligned with the builder's
                        // numbering if it skips or reorders values
                        while model.names.len() <= k {
                            model.names.push(String::from("\u{0}<unissued id>"));
                        }
                        model.names[k] = name;
                        model.pending_add.push(k);
                    }
                    (Err(_), false) => {
                        rejected.insert("dup_name");
                        let after = if h.quiet { None } else { Some(snapshot(&*sut, &model, &fresh)) };
                        if after != before {
                            return Err(fail("state-changed-after-error", step, req, format!("rejected add changed the observable state: before {:?} after {:?}", before, after)));
                        }
                    }
                    (Ok(id), false) => {
                        return Err(fail("dup-name-accepted", step, req, format!("a second datum named {:?} was accepted in the current variant (id {})", name, id)));
                    }
                    (Err(e), true) => {
                        return Err(fail("valid-add-rejected", step, req, format!("valid add of {:?} rejected: {}", name, e)));
                    }
                }
            }
            AdvReq::RemoveBurst { sel, count } => {
                let cur: Vec<usize> = model.current().into_iter().collect();
                if cur.is_empty() {
                    continue;
                }
                let start = pick(*sel, cur.len());
                for k in 0..(*count as usize).min(cur.len()) {
                    let id = cur[(start + cur.len() - k) % cur.len()];
                    match guarded!(step, req, sut.remove(DatumId::from(id))) {
                        Ok(()) => {
                            if let Some(pos) = model.pending_add.iter().position(|&x| x == id) {
                                model.pending_add.remove(pos);
                            } else {
                                model.pending_remove.push(id);
                            }
                        }
                        Err(e) => {
                            return Err(fail("valid-remove-rejected", step, req, format!("valid removal of datum {} rejected: {}", id, e)));
                        }
                    }
                }
            }
            AdvReq::RemoveCurrent { .. } | AdvReq::RemoveIssued { .. } | AdvReq::RemoveUnknown { .. } => {
                let id = match req {
                    AdvReq::RemoveCurrent { sel } => {
                        let cur: Vec<usize> = model.current().into_iter().collect();
                        if cur.is_empty() {
                            continue;
                        }
                        cur[pick(*sel, cur.len())]
                    }
                    AdvReq::RemoveIssued { sel } => {
                        if model.names.is_empty() {
                            continue;
                        }
                        pick(*sel, model.names.len())
                    }
                    AdvReq::RemoveUnknown { beyond } => model.names.len() + *beyond as usize,
                    _ => unreachable!(),
                };
                let verdict = model.remove_verdict(id);
                let before = if verdict.is_ok() || h.quiet { None } else { Some(snapshot(&*sut, &model, &fresh)) };
                let res = guarded!(step, req, sut.remove(DatumId::from(id)));
                match (res, verdict) {
                    (Ok(()), Ok(())) => {
                        if let Some(pos) = model.pending_add.iter().position(|&x| x == id) {
                            model.pending_add.remove(pos);
                        } else {
                            model.pending_remove.push(id);
                        }
                    }
                    (Err(_), Err(kind)) => {
                        rejected.insert(kind);
                        let after = if h.quiet { None } else { Some(snapshot(&*sut, &model, &fresh)) };
                        if after != before {
                            return Err(fail("state-changed-after-error", step, req, format!("rejected removal of {} ({}) changed the observable state", id, kind)));
                        }
                    }
                    (Ok(()), Err(kind)) => {
                        return Err(fail("invalid-remove-accepted", step, req, format!("removal of datum {} accepted although it is {}", id, kind)));
                    }
                    (Err(e), Ok(())) => {
                        return Err(fail("valid-remove-rejected", step, req, format!("valid removal of datum {} rejected: {}", id, e)));
                    }
                }
            }
            AdvReq::Close { strat } => {
                let pending = model.has_pending();
                let vid = guarded!(step, req, sut.close(*strat));
                let v: usize = vid.to_string().parse().unwrap();
                if pending {
                    let new = model.current();
                    model.variants.push(new);
                    model.pending_add.clear();
                    model.pending_remove.clear();
                    if v != model.variants.len() - 1 {
                        return Err(fail("close-id", step, req, format!("close returned variant {} but {} was expected to be created", v, model.variants.len() - 1)));
                    }
                } else {
                    noop_closes += 1;
                    if v != model.variants.len() - 1 {
                        return Err(fail("noop-close-id", step, req, format!("close with nothing pending returned {} instead of the last variant {}", v, model.variants.len() - 1)));
                    }
                }
            }
        }
        if !h.quiet {
            agree(&*sut, &model, step, req)?;
        }
        // names unique within every variant (as reported by the builder itself)
        for v in 0..model.variants.len() {
            let mut names = BTreeSet::new();
            for d in sut.variant_data(v).unwrap_or_default() {
                let n = sut.datum_name(datum_index(d)).unwrap_or_default();
                if !names.insert(n.clone()) {
                    return Err(fail("variant-name-clash", step, req, format!("variant {} holds two data named {:?}", v, n)));
                }
            }
        }
    }

    // build
    let steps = h.reqs.len();
    let pending = !model.pending_add.is_empty() || !model.pending_remove.is_empty();
    let mut build_pending_seen = false;
    if pending && h.build_anyway {
        let r = catch_unwind(AssertUnwindSafe(|| sut.build()));
        if r.is_ok() {
            return Err(fail("build-with-pending-accepted", steps, &dummy, "build() with unclosed changes did not fail".into()));
        }
        build_pending_seen = true;
        rejected.insert("build_pending");
    } else {
        if model.has_pending() {
            let vid = match catch_unwind(AssertUnwindSafe(|| sut.close(h.final_strat))) {
                Ok(v) => v,
                Err(e) => return Err(fail("request-panicked", steps, &dummy, format!("panicked: {}", panic_message(e)))),
            };
            let new = model.current();
            model.variants.push(new);
            model.pending_add.clear();
            model.pending_remove.clear();
            let v: usize = vid.to_string().parse().unwrap();
            if v != model.variants.len() - 1 {
                return Err(fail("close-id", steps, &dummy, format!("final close returned variant {}", v)));
            }
            agree(&*sut, &model, steps, &dummy)?;
        }
        let (variants, names) = match catch_unwind(AssertUnwindSafe(|| sut.build())) {
            Ok(x) => x,
            Err(e) => return Err(fail("valid-build-panicked", steps, &dummy, format!("build() panicked: {}", panic_message(e)))),
        };
        let got: Vec<BTreeSet<usize>> = variants.iter().map(|v| v.iter().copied().collect()).collect();
        if got != model.variants {
            return Err(fail("built-variants-differ", steps, &dummy, format!("built definition has variants {:?}, expected {:?}", got, model.variants)));
        }
        for (v, list) in variants.iter().enumerate() {
            if list.len() != got[v].len() {
                return Err(fail("built-variant-duplicate", steps, &dummy, format!("built variant {} lists a datum twice: {:?}", v, list)));
            }
        }
        if names != model.names {
            return Err(fail("built-names-differ", steps, &dummy, format!("built definition has datum names {:?}, expected {:?}", names, model.names)));
        }
    }

    let mut labels = vec![if h.native { "native_builder" } else { "generic_builder" }];
    for r in &rejected {
        labels.push(r);
    }
    if noop_closes > 0 {
        labels.push("noop_close");
    }
    if build_pending_seen {
        labels.push("build_with_pending");
    }
    if model.variants.len() >= 3 {
        labels.push("ge3_variants");
    }
    Ok(CaseInfo {
        nontrivial: rejected.len() >= 2 && model.variants.len() >= 2,
        labels,
        counters: vec![("requests", h.reqs.len() as u64), ("noop_closes", noop_closes)],
    })
}

pub fn replay(case: &Value) -> Result<(), Failure> {
    let h: AdvHistory = serde_json::from_value(case.clone())
        .map_err(|e| Failure::new("bad-replay-file", e.to_string()))?;
    check_c12(&h).map(|_| ())
}

pub fn run_c12(seed: u64, cases: u64, threads: usize) -> (Outcome, String) {
    (
        run_prop(seed, cases, threads, adv_history, check_c12),
        "adversarial request sequences (<= 40: add with names from a pool of 6 or fresh, remove of current / any issued / \
         never issued ids, close with any strategy, repeated close, build with or without pending changes) against the \
         generic builder (D = u32, both generic strategies) and the native builder (4 strategies, generated shapes), \
         compared after every request with a reference model (id sets per variant, pending lists, names): Ok/Err agreement, \
         unchanged observable state after every rejection, fresh ids, unique names per variant, no-op close, build panic \
         with pending changes, built definition == model. non-trivial: >= 2 kinds of rejected requests and >= 2 variants; \
         distinct by hash of the history"
            .into(),
    )
}
