//! Compiler-as-oracle plumbing: the rlibs probes link against, running rustc on probe programs in
//! a thread pool.

use std::{
    path::{Path, PathBuf},
    process::Command,
    sync::atomic::{AtomicUsize, Ordering},
};

#[derive(Clone, Debug)]
pub struct Externs {
    pub deps_dir: PathBuf,
    pub externs: Vec<(String, PathBuf)>,
    pub engine_dir: PathBuf,
}

pub fn engine_dir() -> PathBuf {
    if let Ok(d) = std::env::var("VERIF_ENGINE_DIR") {
        return PathBuf::from(d);
    }
    // <engine>/target/debug/e5_probes
    let exe = std::env::current_exe().expect("current exe");
    exe.parent().and_then(|p| p.parent()).and_then(|p| p.parent()).expect("engine dir").to_path_buf()
}

/// Builds `probe_deps` and collects the rlib paths of the crates probes may name.
pub fn discover_externs() -> Result<Externs, String> {
    let engine = engine_dir();
    let target = engine.join("target_p");
    let out = Command::new("cargo")
        .current_dir(&engine)
        .env("CARGO_NET_OFFLINE", "true")
        .args(["build", "-q", "-p", "probe_deps", "--message-format=json", "--target-dir"])
        .arg(&target)
        .output()
        .map_err(|e| format!("cannot run cargo: {}", e))?;
    if !out.status.success() {
        return Err(format!("cargo build -p probe_deps failed:\n{}", String::from_utf8_lossy(&out.stderr)));
    }
    let wanted = ["truc_runtime", "vtypes", "serde", "static_assertions", "uuid"];
    let mut externs = vec![];
    for line in String::from_utf8_lossy(&out.stdout).lines() {
        let v: serde_json::Value = match serde_json::from_str(line) {
            Ok(v) => v,
            Err(_) => continue,
        };
        if v["reason"] != "compiler-artifact" {
            continue;
        }
        let name = v["target"]["name"].as_str().unwrap_or("").replace('-', "_");
        if !wanted.contains(&name.as_str()) {
            continue;
        }
        if let Some(files) = v["filenames"].as_array() {
            for f in files {
                if let Some(f) = f.as_str() {
                    if f.ends_with(".rlib") {
                        externs.retain(|(n, _): &(String, PathBuf)| n != &name);
                        externs.push((name.clone(), PathBuf::from(f)));
                    }
                }
            }
        }
    }
    for w in wanted {
        if !externs.iter().any(|(n, _)| n == w) {
            return Err(format!("rlib of {} not found in cargo's output", w));
        }
    }
    Ok(Externs { deps_dir: target.join("debug").join("deps"), externs, engine_dir: engine })
}

pub struct RustcResult {
    pub ok: bool,
    pub stderr: String,
}

/// Type-checks (`bin == false`, metadata only) or builds (`bin == true`) a program.
pub fn rustc(ext: &Externs, src: &Path, out_dir: &Path, bin: Option<&Path>) -> RustcResult {
    let mut cmd = Command::new("rustc");
    cmd.arg("--edition").arg("2021").arg("--cap-lints").arg("allow");
    match bin {
        None => {
            cmd.arg("--crate-type").arg("lib").arg("--emit=metadata").arg("--out-dir").arg(out_dir);
        }
        Some(path) => {
            cmd.arg("--crate-type").arg("bin").arg("-o").arg(path);
        }
    }
    cmd.arg("-L").arg(format!("dependency={}", ext.deps_dir.display()));
    for (name, path) in &ext.externs {
        cmd.arg("--extern").arg(format!("{}={}", name, path.display()));
    }
    cmd.arg(src);
    match cmd.output() {
        Ok(o) => RustcResult { ok: o.status.success(), stderr: String::from_utf8_lossy(&o.stderr).to_string() },
        Err(e) => RustcResult { ok: false, stderr: format!("HARNESS: cannot run rustc: {}", e) },
    }
}

/// Wrapper program around one generated module.
pub fn wrap_module(def_path: &Path) -> String {
    format!(
        "#![allow(dead_code, unused_imports, unused_variables, unused_mut)]\n#[macro_use]\nextern crate static_assertions;\npub mod m {{\n    include!({:?});\n}}\n",
        def_path.display().to_string()
    )
}

/// First error lines of a rustc output.
pub fn first_error(stderr: &str) -> (String, String) {
    let mut code = String::from("error");
    let mut text = String::new();
    let mut lines = stderr.lines();
    while let Some(l) = lines.next() {
        if l.starts_with("error") {
            if let Some(a) = l.find('[') {
                if let Some(b) = l.find(']') {
                    code = l[a + 1..b].to_string();
                }
            }
            text.push_str(l);
            text.push('\n');
            for _ in 0..6 {
                if let Some(n) = lines.next() {
                    text.push_str(n);
                    text.push('\n');
                }
            }
            break;
        }
    }
    (code, text)
}

/// Runs `f(i)` for i in 0..n on `threads` threads, collecting the results in order.
pub fn parallel<T: Send>(n: usize, threads: usize, f: impl Fn(usize) -> T + Sync) -> Vec<T> {
    let next = AtomicUsize::new(0);
    let mut slots: Vec<Option<T>> = (0..n).map(|_| None).collect();
    let results = std::sync::Mutex::new(&mut slots);
    std::thread::scope(|s| {
        for _ in 0..threads.max(1).min(n.max(1)) {
            s.spawn(|| loop {
                let i = next.fetch_add(1, Ordering::Relaxed);
                if i >= n {
                    break;
                }
                let r = f(i);
                results.lock().unwrap()[i] = Some(r);
            });
        }
    });
    slots.into_iter().map(|x| x.expect("result")).collect()
}

pub fn work_dir(tag: &str) -> PathBuf {
    let base = std::env::var("VERIF_WORK").unwrap_or_else(|_| "/verif/work".to_string());
    let d = PathBuf::from(base).join("e5").join(format!("{}-{}", tag, std::process::id()));
    let _ = std::fs::remove_dir_all(&d);
    std::fs::create_dir_all(&d).expect("work dir");
    d
}
