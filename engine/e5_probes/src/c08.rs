//! C08 at compile time: the in-place vector conversion is available for every pair of element
//! types of equal layout (whatever the types' auto traits, lifetimes, unwind safety), and the
//! mutable access a converter gets to the previous output element ends with the call.
//!
//! Generated: element types from a small grammar, entry point, form of the converter. Oracle: rustc.

use std::fs;

use proptest::prelude::*;
use serde::{Deserialize, Serialize};
use serde_json::{json, Value};

use crate::{common::*, sample, Acc};

#[derive(Clone, Debug, Serialize, Deserialize, Hash, PartialEq, Eq)]
pub enum El {
    U64,
    Str,
    RcRefCell,
    BoxDynFn,
    BoxDynFnMut,
    MutRef,
    SharedRef,
    RawPtr,
    Cell,
    NonNull,
    Record,
    Opt(Box<El>),
    Vec(Box<El>),
    Pair(Box<El>, Box<El>),
    Arr(Box<El>),
}

impl El {
    fn text(&self) -> String {
        match self {
            El::U64 => "u64".into(),
            El::Str => "String".into(),
            El::RcRefCell => "std::rc::Rc<std::cell::RefCell<Vec<u64>>>".into(),
            El::BoxDynFn => "Box<dyn Fn(u64) -> u64>".into(),
            El::BoxDynFnMut => "Box<dyn FnMut(u64) -> u64 + Send>".into(),
            El::MutRef => "&'a mut u64".into(),
            El::SharedRef => "&'a std::cell::Cell<u32>".into(),
            El::RawPtr => "*const u8".into(),
            El::Cell => "std::cell::Cell<u32>".into(),
            El::NonNull => "std::ptr::NonNull<u16>".into(),
            El::Record => "truc_runtime::data::RecordMaybeUninit<24>".into(),
            El::Opt(t) => format!("Option<{}>", t.text()),
            El::Vec(t) => format!("Vec<{}>", t.text()),
            El::Pair(a, b) => format!("({}, {})", a.text(), b.text()),
            El::Arr(t) => format!("[{}; 3]", t.text()),
        }
    }
    fn label(&self) -> &'static str {
        match self {
            El::U64 | El::Str => "element_plain_or_owned",
            El::RcRefCell => "element_rc_refcell",
            El::BoxDynFn | El::BoxDynFnMut => "element_trait_object",
            El::MutRef | El::SharedRef => "element_borrowing",
            El::RawPtr | El::NonNull => "element_raw_pointer",
            El::Cell => "element_cell",
            El::Record => "element_record_buffer",
            El::Opt(_) | El::Vec(_) | El::Pair(..) | El::Arr(_) => "element_compound",
        }
    }
    fn leaves(&self, out: &mut Vec<&'static str>) {
        match self {
            El::Opt(t) | El::Vec(t) | El::Arr(t) => t.leaves(out),
            El::Pair(a, b) => {
                a.leaves(out);
                b.leaves(out);
            }
            x => out.push(x.label()),
        }
    }
}

fn el_strategy() -> impl Strategy<Value = El> {
    let leaf = prop_oneof![
        Just(El::U64),
        Just(El::Str),
        Just(El::RcRefCell),
        Just(El::BoxDynFn),
        Just(El::BoxDynFnMut),
        Just(El::MutRef),
        Just(El::SharedRef),
        Just(El::RawPtr),
        Just(El::Cell),
        Just(El::NonNull),
        Just(El::Record),
    ];
    leaf.prop_recursive(2, 6, 2, |inner| {
        prop_oneof![
            inner.clone().prop_map(|t| El::Opt(Box::new(t))),
            inner.clone().prop_map(|t| El::Vec(Box::new(t))),
            (inner.clone(), inner.clone()).prop_map(|(a, b)| El::Pair(Box::new(a), Box::new(b))),
            inner.prop_map(|t| El::Arr(Box::new(t))),
        ]
    })
}

#[derive(Clone, Debug, Serialize, Deserialize, Hash, PartialEq, Eq)]
pub struct C08Probe {
    pub el: El,
    /// `try_convert_vec_in_place` (else `convert_vec_in_place`)
    pub try_entry: bool,
    /// 0 closure written at the call, 1 closure kept in a variable, 2 generic `fn` item
    pub form: u8,
    /// the converter looks at / modifies the previous output through the reference it gets
    pub uses_prev: bool,
    /// the converter tries to keep the reference beyond the call (must not compile)
    pub escape: bool,
    /// ... by returning it as the error value of a failing conversion (`try_` entry) instead of storing it
    #[serde(default)]
    pub through_error: bool,
}

fn probe_strategy() -> impl Strategy<Value = C08Probe> {
    (el_strategy(), any::<bool>(), 0u8..3, any::<bool>(), prop::bool::weighted(0.25), any::<bool>())
        .prop_map(|(el, try_entry, form, uses_prev, escape, through_error)| C08Probe { el, try_entry, form, uses_prev, escape, through_error: escape && through_error })
}

/// One function per probe; `W<T>` is a transparent wrapper, so `Vec<T> -> Vec<W<T>>` has equal layouts.
fn probe_source(k: usize, p: &C08Probe) -> String {
    let t = p.el.text();
    let mut s = String::new();
    let ok = if p.try_entry { "Ok::<_, String>" } else { "" };
    let call = if p.try_entry { "truc_runtime::convert::try_convert_vec_in_place" } else { "truc_runtime::convert::convert_vec_in_place" };
    let ret = if p.try_entry { format!("Result<Vec<W<{}>>, String>", t) } else { format!("Vec<W<{}>>", t) };
    let touch = if p.uses_prev { "if let Some(p) = prev.as_mut() { touch(&mut **p); }" } else { "" };
    if p.escape && p.through_error {
        // a failing converter hands the reference it was lent back as its error value
        s.push_str(&format!(
            "pub fn probe_{k}<'a>(input: Vec<{t}>) -> bool {{\n    let r = truc_runtime::convert::try_convert_vec_in_place(input, |x: {t}, prev: Option<&mut W<{t}>>| match prev {{ Some(p) => Err(p), None => Ok(VecElementConversionResult::Converted(W(x))) }});\n    r.is_err()\n}}\n",
            k = k,
            t = t
        ));
        return s;
    }
    if p.escape {
        // the reference handed to the converter is pushed into a collection that outlives the call
        s.push_str(&format!(
            "pub fn probe_{k}<'a>(input: Vec<{t}>) -> usize {{\n    let kept: std::sync::Mutex<Vec<&mut W<{t}>>> = std::sync::Mutex::new(Vec::new());\n    let out = {call}(input, |x: {t}, prev: Option<&mut W<{t}>>| {{ if let Some(p) = prev {{ kept.lock().unwrap().push(p); }} {ok}(VecElementConversionResult::Converted(W(x))) }});\n    let n = kept.lock().unwrap().len();\n    drop(out);\n    n\n}}\n",
            k = k,
            t = t,
            call = call,
            ok = ok
        ));
        return s;
    }
    match p.form {
        0 => s.push_str(&format!(
            "pub fn probe_{k}<'a>(input: Vec<{t}>) -> {ret} {{\n    {call}(input, |x: {t}, mut prev: Option<&mut W<{t}>>| {{ {touch} {ok}(VecElementConversionResult::Converted(W(x))) }})\n}}\n",
            k = k, t = t, ret = ret, call = call, touch = touch, ok = ok
        )),
        1 => s.push_str(&format!(
            "pub fn probe_{k}<'a>(input: Vec<{t}>) -> {ret} {{\n    let conv = |x: {t}, mut prev: Option<&mut W<{t}>>| {{ {touch} {ok}(VecElementConversionResult::Converted(W(x))) }};\n    {call}(input, conv)\n}}\n",
            k = k, t = t, ret = ret, call = call, touch = touch, ok = ok
        )),
        _ => {
            let conv_ret = if p.try_entry { "Result<VecElementConversionResult<W<X>>, String>" } else { "VecElementConversionResult<W<X>>" };
            let touch_x = if p.uses_prev { "if let Some(p) = prev.as_mut() { touch(&mut **p); }" } else { "let _ = &mut prev;" };
            s.push_str(&format!(
                "fn conv_{k}<X>(x: X, mut prev: Option<&mut W<X>>) -> {conv_ret} {{ {touch_x} {ok_x}(VecElementConversionResult::Converted(W(x))) }}\npub fn probe_{k}<'a>(input: Vec<{t}>) -> {ret} {{\n    {call}(input, conv_{k}::<{t}>)\n}}\n",
                k = k,
                t = t,
                ret = ret,
                call = call,
                conv_ret = conv_ret,
                touch_x = touch_x,
                ok_x = if p.try_entry { "Ok" } else { "" }
            ));
        }
    }
    s
}

const HEADER: &str = "#![allow(dead_code, unused_variables, unused_mut)]\nuse truc_runtime::convert::VecElementConversionResult;\n#[repr(transparent)]\npub struct W<T>(pub T);\nfn touch<T>(_t: &mut T) {}\n";

/// `Ok(false)`: a must-reject probe was rejected, but not by the borrow checker (nothing learnt).
fn check_probe(ext: &Externs, dir: &std::path::Path, k: usize, p: &C08Probe) -> Result<bool, (String, String)> {
    let src = dir.join(format!("probe_{}.rs", k));
    fs::write(&src, format!("{}{}", HEADER, probe_source(k, p))).expect("write probe");
    let r = rustc(ext, &src, dir, None);
    if r.stderr.starts_with("HARNESS:") {
        return Err(("harness-io".into(), r.stderr));
    }
    let (code, text) = first_error(&r.stderr);
    const BORROW: [&str; 11] = ["E0521", "E0495", "E0499", "E0502", "E0505", "E0506", "E0597", "E0716", "E0373", "E0712", "E0713"];
    match (p.escape, r.ok) {
        (false, true) => Ok(true),
        (true, false) => Ok(BORROW.contains(&code.as_str()) || r.stderr.contains("lifetime")),
        (false, false) => Err((
            "c08:rejected-at-compile-time".into(),
            format!(
                "the in-place conversion of Vec<{t}> into Vec<W<{t}>> (W transparent: equal layouts) through {e} does not compile: {m}",
                t = p.el.text(),
                e = if p.try_entry { "try_convert_vec_in_place" } else { "convert_vec_in_place" },
                m = text
            ),
        )),
        (true, true) if p.through_error => Err((
            "c09:previous-output-escapes-through-the-error".into(),
            format!(
                "a failing converter can return the `&mut` to the previous output element as its error value (element type {}): the caller then holds a reference to an output that the failed conversion has dropped and freed",
                p.el.text()
            ),
        )),
        (true, true) => Err((
            "c08:previous-output-escapes".into(),
            format!(
                "a converter can keep the `&mut` to the previous output element beyond the call (element type {}): the program storing every such reference in a collection that outlives the conversion compiles, so several live `&mut` to one element of the result exist",
                p.el.text()
            ),
        )),
    }
}

pub fn run_c08(n: usize) -> Result<Value, String> {
    run(n, false)
}

/// C09's share: the probes in which a failing converter tries to return the lent reference as its error, and
/// the must-compile probes of the `try_` entry.
pub fn run_c09(n: usize) -> Result<Value, String> {
    run(n, true)
}

fn run(n: usize, c09: bool) -> Result<Value, String> {
    let ext = discover_externs()?;
    let dir = work_dir(if c09 { "c09" } else { "c08" });
    let mut seen = std::collections::BTreeSet::new();
    let probes: Vec<C08Probe> = sample(&probe_strategy(), if c09 { 3 * n } else { n }, 0xC08)
        .into_iter()
        .filter(|p| !c09 || (p.try_entry && (!p.escape || p.through_error)))
        .filter(|p| c09 || !p.through_error)
        .filter(|p| seen.insert(crate::hash_of(p)))
        .collect();
    let results = parallel(probes.len(), vcore::env_threads(), |k| check_probe(&ext, &dir, k, &probes[k]));
    let mut out = Acc::default();
    for (k, r) in results.into_iter().enumerate() {
        let p = &probes[k];
        match r {
            Ok(false) => out.label("skipped_rejected_for_another_reason"),
            Ok(true) => {
                let mut classes = vec![];
                p.el.leaves(&mut classes);
                classes.sort();
                classes.dedup();
                classes.push(if p.through_error { "must_reject_reference_returned_as_error" } else if p.escape { "must_reject_reference_kept" } else { "must_compile" });
                classes.push(if p.try_entry { "try_entry" } else { "infallible_entry" });
                if !p.escape {
                    classes.push(["closure_at_the_call", "closure_in_a_variable", "generic_fn_item"][p.form as usize % 3]);
                }
                // non-trivial: an element type that is not Send + Sync + UnwindSafe + 'static, or the escape probe
                let special = classes.iter().any(|c| ["element_rc_refcell", "element_trait_object", "element_borrowing", "element_raw_pointer", "element_cell"].contains(c));
                out.pass(p, special || p.escape, &classes, &[]);
            }
            Err((sig, msg)) if sig == "harness-io" => return Err(msg),
            Err((sig, msg)) => {
                out.evaluations += 1;
                if out.failures.len() < 4 {
                    out.failures.push(json!({"signature": sig, "message": msg, "case": p}));
                }
            }
        }
    }
    let _ = fs::remove_dir_all(&dir);
    Ok(out.to_json(
        if c09 { "C09" } else { "C08" },
        "compile-time part: element types from the grammar E ::= u64 | String | Rc<RefCell<_>> | Box<dyn Fn> | Box<dyn FnMut + Send> | &'a mut u64 | &'a Cell<u32> | *const u8 | Cell<u32> | NonNull<u16> | RecordMaybeUninit<24> | Option<E> | Vec<E> | (E, E) | [E; 3], entry point, form of the converter (closure at the call, closure in a variable, generic fn item), whether it uses the previous output; Vec<E> -> Vec<W<E>> with W transparent (equal layouts) must type-check under rustc against truc_runtime; in a quarter of the probes the converter pushes the `&mut` it gets into a collection that outlives the call, and that program must be rejected (C09's share: a failing converter returns the reference as its error value; must be rejected too). non-trivial: an element type that is not Send + Sync + UnwindSafe + 'static, or a must-reject probe; distinct by hash of the probe",
    ))
}

pub fn replay(case: &Value) -> Result<(), (String, String)> {
    let p: C08Probe = serde_json::from_value(case.clone()).map_err(|e| ("bad-replay-file".to_string(), e.to_string()))?;
    let ext = discover_externs().map_err(|e| ("harness-io".to_string(), e))?;
    let dir = work_dir("c08r");
    let r = check_probe(&ext, &dir, 0, &p);
    let _ = fs::remove_dir_all(&dir);
    r.map(|_| ())
}
