//! E5: the Rust compiler as oracle on generated programs (C11, C13 part b, C14, C17).
//!
//! usage: e5_probes run <C11|C13|C14|C17> <n> <result.json>
//!        e5_probes replay <PROP> <case.json>

mod c08;
mod c17;
mod common;

use std::{
    collections::{hash_map::DefaultHasher, BTreeMap, BTreeSet, HashSet},
    fs,
    hash::{Hash, Hasher},
    panic::{catch_unwind, AssertUnwindSafe},
    process::ExitCode,
};

use common::*;
use e2_genstage::*;
use proptest::{
    prelude::*,
    strategy::ValueTree,
    test_runner::{Config, RngSeed, TestRunner},
};
use serde::{Deserialize, Serialize};
use serde_json::{json, Value};
use truc::generator::generate;
use vcore::{datum_index, env_seed, env_threads, mix_seed, panic_message, pick};

pub fn hash_of<T: Hash>(t: &T) -> u64 {
    let mut h = DefaultHasher::new();
    t.hash(&mut h);
    h.finish()
}

pub fn sample<S: Strategy>(strategy: &S, n: usize, salt: u64) -> Vec<S::Value> {
    let mut runner = TestRunner::new(Config {
        rng_seed: RngSeed::Fixed(mix_seed(env_seed(), salt)),
        failure_persistence: None,
        ..Config::default()
    });
    (0..n).map(|_| strategy.new_tree(&mut runner).expect("tree").current()).collect()
}

/// Classes of a built definition (for the non-trivial rules).
fn def_classes(built: &Built) -> Vec<&'static str> {
    let mut v = vec![];
    let variants: Vec<Vec<usize>> = built.def.variants().map(|x| x.data_sorted().map(datum_index).collect()).collect();
    let placed: BTreeSet<usize> = variants.iter().flatten().copied().collect();
    if built.additions > placed.len() {
        v.push("add_then_remove_before_close");
    }
    if variants.iter().any(|x| x.is_empty()) {
        v.push("empty_variant");
    }
    for w in variants.windows(2) {
        if w[1].len() < w[0].len() && w[1].iter().all(|d| w[0].contains(d)) {
            v.push("removal_only_variant");
            break;
        }
    }
    for var in built.def.variants() {
        let data: Vec<_> = var.data().collect();
        if !data.is_empty() && data.iter().all(|d| built.def[*d].details().allow_uninit()) {
            v.push("uninit_only_variant");
            break;
        }
    }
    if built.def.datum_definitions().any(|d| d.details().size() == 0 && placed.contains(&datum_index(d.id()))) {
        v.push("has_zst");
    }
    if variants.len() >= 3 {
        v.push("ge3_variants");
    }
    v
}

/// Generates the module text; `None` when the build-time library panics (C13 part a's business).
fn module_text(h: &RHistory, ext: &Ext, fragsel: u8) -> Option<(Built, String)> {
    catch_unwind(AssertUnwindSafe(|| {
        let built = build_ext(h, ext);
        let text = generate(&built.def, &config_for(fragsel));
        (built, text)
    }))
    .ok()
}

struct Compiled {
    ok: bool,
    stderr: String,
}

fn compile_module(ext: &Externs, dir: &std::path::Path, tag: &str, text: &str) -> Compiled {
    let def = dir.join(format!("{}_def.rs", tag));
    let wrap = dir.join(format!("{}.rs", tag));
    fs::write(&def, text).expect("write module");
    fs::write(&wrap, wrap_module(&def)).expect("write wrapper");
    let r = rustc(ext, &wrap, dir, None);
    Compiled { ok: r.ok, stderr: r.stderr }
}

/// Delta-debugging of a history: drops requests while `still_fails`.
fn shrink_history(h: &RHistory, budget: usize, still_fails: &dyn Fn(&RHistory) -> bool) -> RHistory {
    let mut cur = h.clone();
    let mut spent = 0;
    let mut progress = true;
    while progress && spent < budget {
        progress = false;
        let mut i = 0;
        while i < cur.reqs.len() && spent < budget {
            let mut cand = cur.clone();
            cand.reqs.remove(i);
            spent += 1;
            if still_fails(&cand) {
                cur = cand;
                progress = true;
            } else {
                i += 1;
            }
        }
    }
    cur
}

// ---------------------------------------------------------------------------------------------
// C13 (b)

#[derive(Clone, Debug, Serialize, Deserialize, Hash, PartialEq, Eq)]
pub struct C13Case {
    pub history: RHistory,
    pub fragsel: u8,
}

fn c13_check(ext: &Externs, dir: &std::path::Path, tag: &str, case: &C13Case) -> Result<Option<Vec<&'static str>>, (String, String)> {
    // the field types are chosen among those that implement what the selected fragments need
    let mut history = case.history.clone();
    history.fragsel = case.fragsel;
    let (built, text) = match module_text(&history, &Ext::default(), case.fragsel) {
        Some(x) => x,
        None => return Ok(None),
    };
    let c = compile_module(ext, dir, tag, &text);
    if c.ok {
        Ok(Some(def_classes(&built)))
    } else if c.stderr.contains("HARNESS:") {
        Err(("harness-io".into(), c.stderr))
    } else {
        let (code, text) = first_error(&c.stderr);
        Err((format!("rejected:{}", code), text))
    }
}

fn run_c13(n: usize) -> Result<Value, String> {
    let ext = discover_externs()?;
    let dir = work_dir("c13");
    let histories = sample(&rhistory(), n, 0xC13);
    let cases: Vec<C13Case> = histories
        .iter()
        .enumerate()
        .flat_map(|(k, h)| (0..if k % 8 == 0 { 5u8 } else { 4u8 }).map(move |f| C13Case { history: h.clone(), fragsel: f }))
        .collect();
    let results = parallel(cases.len(), env_threads(), |i| c13_check(&ext, &dir, &format!("p{}", i), &cases[i]));
    let mut out = Acc::default();
    for (i, r) in results.into_iter().enumerate() {
        match r {
            Ok(Some(classes)) => {
                let nontrivial = classes.iter().any(|c| ["add_then_remove_before_close", "empty_variant", "removal_only_variant", "uninit_only_variant", "has_zst"].contains(c));
                out.pass(&cases[i], nontrivial, &classes, &[["fragments_none", "fragments_clone", "fragments_serde", "fragments_clone_serde", "user_fragment_only"][cases[i].fragsel as usize]]);
            }
            Ok(None) => out.label("skipped_generator_panicked"),
            Err((sig, msg)) => {
                if out.failures.len() < 3 && sig != "harness-io" {
                    let fragsel = cases[i].fragsel;
                    let sig2 = sig.clone();
                    let shrunk = shrink_history(&cases[i].history, 60, &|h| {
                        matches!(c13_check(&ext, &dir, &format!("s{}", i), &C13Case { history: h.clone(), fragsel }), Err((s, _)) if s == sig2)
                    });
                    out.fail(&C13Case { history: shrunk, fragsel }, &sig, &format!("rustc rejects the generated module (fragment selection {}):\n{}", fragsel, msg));
                } else if sig == "harness-io" {
                    out.fail(&cases[i], &sig, &msg);
                }
                out.evaluations += 1;
            }
        }
    }
    let _ = fs::remove_dir_all(&dir);
    Ok(out.to_json(
        "C13",
        "part (b): definitions generated over the real field-type menu (block-structured histories: removals, additions, removal of a pending datum, close with any strategy; names from a pool so that names are reused) x the 4 fragment selections; each generated module is type-checked by rustc against truc_runtime, static_assertions, serde and the field types' crate; any error is a violation (warnings are not). non-trivial: the definition has an add-then-remove-before-close, an empty / removal-only / uninit-only variant or a zero-size field; distinct by hash of (history, fragment selection)",
    ))
}

// ---------------------------------------------------------------------------------------------
// C03 (b), as compile-time assertions: cheap enough for hundreds of definitions

fn c03_check(ext: &Externs, dir: &std::path::Path, tag: &str, h: &RHistory) -> Result<Option<(Vec<&'static str>, bool)>, (String, String)> {
    let (built, text) = match module_text(h, &Ext::default(), h.fragsel) {
        Some(x) => x,
        None => return Ok(None),
    };
    let def = dir.join(format!("{}_def.rs", tag));
    let wrap = dir.join(format!("{}.rs", tag));
    fs::write(&def, &text).expect("write module");
    let mut w = wrap_module(&def);
    let n = built.def.variants().count();
    for (cap, cap_name) in [("{ m::MAX_SIZE }", "MAX_SIZE"), ("{ m::MAX_SIZE + 5 }", "MAX_SIZE+5"), ("{ m::MAX_SIZE + 64 }", "MAX_SIZE+64")] {
        for v in 0..n {
            w.push_str(&format!(
                "const _: () = assert!(std::mem::size_of::<m::RecordUninitialized<{cap}>>() == std::mem::size_of::<m::CappedRecord{v}<{cap}>>(), \"C03: size_of CappedRecord{v} differs from RecordUninitialized at CAP {cn}\");\n\
                 const _: () = assert!(std::mem::align_of::<m::RecordUninitialized<{cap}>>() == std::mem::align_of::<m::CappedRecord{v}<{cap}>>(), \"C03: align_of CappedRecord{v} differs from RecordUninitialized at CAP {cn}\");\n",
                cap = cap,
                v = v,
                cn = cap_name
            ));
            if v > 0 {
                w.push_str(&format!(
                    "const _: () = assert!(std::mem::size_of::<m::CappedRecord0<{cap}>>() == std::mem::size_of::<m::CappedRecord{v}<{cap}>>() && std::mem::align_of::<m::CappedRecord0<{cap}>>() == std::mem::align_of::<m::CappedRecord{v}<{cap}>>(), \"C03: CappedRecord{v} and CappedRecord0 differ in size or alignment at CAP {cn}\");\n",
                    cap = cap,
                    v = v,
                    cn = cap_name
                ));
            }
        }
    }
    fs::write(&wrap, w).expect("write wrapper");
    let r = rustc(ext, &wrap, dir, None);
    if r.ok {
        let per_variant: BTreeSet<usize> = built
            .def
            .variants()
            .map(|v| v.data().map(|d| built.def[d].details().type_align()).max().unwrap_or(1))
            .collect();
        let mut classes = def_classes(&built);
        // the most aligned datum of the definition is not in every variant
        let nontrivial = n >= 3 && per_variant.len() >= 2;
        if per_variant.len() >= 2 {
            classes.push("variants_differ_in_max_alignment");
        }
        return Ok(Some((classes, nontrivial)));
    }
    if r.stderr.contains("HARNESS:") {
        return Err(("harness-io".into(), r.stderr));
    }
    if let Some(pos) = r.stderr.find("C03:") {
        let msg: String = r.stderr[pos..].lines().next().unwrap_or("").to_string();
        return Err(("layouts-differ".into(), msg));
    }
    // does not compile for another reason: C13's business
    Ok(None)
}

fn run_c03(n: usize) -> Result<Value, String> {
    let ext = discover_externs()?;
    let dir = work_dir("c03");
    let histories = sample(&rhistory(), n, 0xC03);
    let results = parallel(histories.len(), env_threads(), |i| c03_check(&ext, &dir, &format!("p{}", i), &histories[i]));
    let mut out = Acc::default();
    for (i, r) in results.into_iter().enumerate() {
        match r {
            Ok(Some((classes, nontrivial))) => out.pass(&histories[i], nontrivial, &classes, &[]),
            Ok(None) => out.label("skipped_not_compiling_or_panicking"),
            Err((sig, msg)) => {
                out.evaluations += 1;
                if out.failures.len() < 3 {
                    if sig == "harness-io" {
                        out.fail(&histories[i], &sig, &msg);
                    } else {
                        let sig2 = sig.clone();
                        let shrunk = shrink_history(&histories[i], 60, &|h| matches!(c03_check(&ext, &dir, &format!("s{}", i), h), Err((s, _)) if s == sig2));
                        let msg = match c03_check(&ext, &dir, &format!("s{}", i), &shrunk) {
                            Err((_, m)) => m,
                            _ => msg,
                        };
                        out.fail(&shrunk, &sig, &format!("compile-time comparison of the generated record types: {}", msg));
                    }
                }
            }
        }
    }
    let _ = fs::remove_dir_all(&dir);
    Ok(out.to_json(
        "C03",
        "part (b) as compile-time assertions: definitions generated over the real field-type menu (as for C13 b); for CAP in {MAX_SIZE, MAX_SIZE+5, MAX_SIZE+64} size_of and align_of of RecordUninitialized and every CappedRecordN must be equal (const assertions type-checked by rustc). non-trivial: >= 3 variants whose maximal field alignments differ; distinct by hash of the history",
    ))
}

// ---------------------------------------------------------------------------------------------
// C11

#[derive(Clone, Debug, Serialize, Deserialize, Hash, PartialEq, Eq)]
pub struct C11Case {
    pub history: RHistory,
    pub target: u16,
    pub kind: PerturbKind,
    pub entry: EntryKind,
    pub twin: bool,
    /// selector of the perturbed datum's type among all menu types (for the uninit flag: among the
    /// types that are not `Copy`); `None`: the type the history draws
    #[serde(default)]
    pub force: Option<u16>,
    /// generate with `GeneratorConfig::new` and a user fragment only (no stock fragment)
    #[serde(default)]
    pub bare: bool,
}

fn c11_strategy() -> impl Strategy<Value = C11Case> {
    (
        rhistory(),
        any::<u16>(),
        prop_oneof![
            Just(PerturbKind::SizeMinus1),
            Just(PerturbKind::SizePlus1),
            Just(PerturbKind::SizePlusAlign),
            Just(PerturbKind::AlignHalf),
            Just(PerturbKind::AlignDouble),
            Just(PerturbKind::AlignMinus1),
            Just(PerturbKind::AlignPlus1),
            Just(PerturbKind::UninitNonCopy),
            Just(PerturbKind::UninitNonCopy)
        ],
        prop_oneof![Just(EntryKind::Override), Just(EntryKind::CopyDatum), Just(EntryKind::Dynamic), Just(EntryKind::NameOnly)],
        prop::bool::weighted(0.4),
        prop::option::weighted(0.5, any::<u16>()),
        prop::bool::weighted(0.12),
    )
        .prop_map(|(history, target, kind, entry, twin, force, bare)| C11Case { history, target, kind, entry, twin, force, bare })
}

enum C11Outcome {
    Skipped(&'static str),
    Pass { classes: Vec<&'static str>, nontrivial: bool },
    Fail(String, String),
}

fn c11_check(ext: &Externs, dir: &std::path::Path, tag: &str, case: &C11Case) -> C11Outcome {
    // number of additions of the plain history
    let plain = match catch_unwind(AssertUnwindSafe(|| build_ext(&case.history, &Ext::default()))) {
        Ok(b) => b,
        Err(_) => return C11Outcome::Skipped("skipped_builder_panicked"),
    };
    if plain.additions == 0 {
        return C11Outcome::Skipped("skipped_no_datum");
    }
    let ordinal = pick(case.target, plain.additions);
    let force_type = case.force.map(|sel| {
        let pool: Vec<usize> = (0..vtypes::MENU.len()).filter(|&i| case.kind != PerturbKind::UninitNonCopy || !vtypes::MENU[i].copy).collect();
        pool[pick(sel, pool.len())]
    });
    let mk = |apply: bool| Ext { perturb: Some((ordinal, case.kind, case.entry)), apply_perturbation: apply, markers: BTreeMap::new(), twin: case.twin, force_type, alias_paths: false };
    // (the Copy requirement on may-be-uninitialised data is carried by the stock constructors)
    let bare = case.bare && case.kind != PerturbKind::UninitNonCopy;
    let fragsel = if bare { 4 } else { case.history.fragsel };
    let (control, control_text) = match module_text(&case.history, &mk(false), fragsel) {
        Some(x) => x,
        None => return C11Outcome::Skipped("skipped_generator_panicked"),
    };
    let pid = match control.perturbed_id {
        Some(p) => p,
        None => return C11Outcome::Skipped("skipped_perturbation_not_applicable"),
    };
    let placed = control.def.variants().any(|v| v.data().any(|d| datum_index(d) == pid));
    if !placed {
        return C11Outcome::Skipped("skipped_datum_never_placed");
    }
    let (pert, pert_text) = match module_text(&case.history, &mk(true), fragsel) {
        Some(x) => x,
        None => return C11Outcome::Skipped("skipped_generator_panicked"),
    };
    let c = compile_module(ext, dir, &format!("{}c", tag), &control_text);
    if !c.ok {
        if c.stderr.contains("HARNESS:") {
            return C11Outcome::Fail("harness-io".into(), c.stderr);
        }
        // the unperturbed definition does not compile: C13's business, nothing can be concluded here
        return C11Outcome::Skipped("skipped_control_rejected");
    }
    let p = compile_module(ext, dir, &format!("{}p", tag), &pert_text);
    if p.stderr.contains("HARNESS:") {
        return C11Outcome::Fail("harness-io".into(), p.stderr);
    }
    let kind_name = match case.kind {
        PerturbKind::SizeMinus1 | PerturbKind::SizePlus1 | PerturbKind::SizePlusAlign => "size",
        PerturbKind::AlignHalf | PerturbKind::AlignDouble | PerturbKind::AlignMinus1 | PerturbKind::AlignPlus1 => "align",
        PerturbKind::UninitNonCopy => "uninit-non-copy",
    };
    if p.ok {
        let d = control.def.datum_definitions().find(|d| datum_index(d.id()) == pid).unwrap();
        let dp = pert.def.datum_definitions().find(|d| datum_index(d.id()) == pid).unwrap();
        return C11Outcome::Fail(
            format!("perturbed-accepted:{}", kind_name),
            format!(
                "datum {} of type {} (real size {}, align {}, uninit {}) recorded through {:?} as size {}, align {}, uninit {}: the generated module is accepted by rustc",
                d.name(),
                d.details().type_name(),
                d.details().size(),
                d.details().type_align(),
                d.details().allow_uninit(),
                case.entry,
                dp.details().size(),
                dp.details().type_align(),
                dp.details().allow_uninit()
            ),
        );
    }
    // classes
    let mut classes = vec![kind_name_label(kind_name)];
    classes.push(match case.entry {
        EntryKind::Override => "entry_override",
        EntryKind::CopyDatum => "entry_copy",
        EntryKind::Dynamic => "entry_dynamic",
        EntryKind::NameOnly => "entry_partial_override",
        EntryKind::Typed => "entry_typed",
    });
    if bare {
        classes.push("user_fragment_only");
    }
    let first_variant = control.def.variants().next().map_or(false, |v| v.data().any(|d| datum_index(d) == pid));
    classes.push(if first_variant { "introduced_in_first_variant" } else { "introduced_in_later_variant" });
    let last_variant = control.def.variants().last().map_or(false, |v| v.data().any(|d| datum_index(d) == pid));
    if !last_variant {
        classes.push("removed_before_last_variant");
    }
    let shares = control.def.variants().any(|v| v.data().any(|d| datum_index(d) == pid) && v.data_len() >= 2);
    let moved = control
        .def
        .datum_definitions()
        .zip(pert.def.datum_definitions())
        .any(|(a, b)| datum_index(a.id()) != pid && a.details().offset() != b.details().offset());
    classes.push(if moved { "perturbation_moves_other_data" } else { "perturbation_changes_no_other_offset" });
    let tname = control.def.datum_definitions().find(|d| datum_index(d.id()) == pid).unwrap().details().type_name().to_string();
    if control.def.datum_definitions().any(|d| datum_index(d.id()) != pid && d.details().type_name() == tname) {
        classes.push("same_type_used_by_another_datum");
    }
    C11Outcome::Pass { classes, nontrivial: shares && control.def.datum_definitions().count() >= 2 }
}

fn kind_name_label(k: &str) -> &'static str {
    match k {
        "size" => "perturbed_size",
        "align" => "perturbed_align",
        _ => "uninit_on_non_copy",
    }
}

fn run_c11(n: usize) -> Result<Value, String> {
    let ext = discover_externs()?;
    let dir = work_dir("c11");
    let cases = sample(&c11_strategy(), n, 0xC11);
    let results = parallel(cases.len(), env_threads(), |i| c11_check(&ext, &dir, &format!("p{}", i), &cases[i]));
    let mut out = Acc::default();
    for (i, r) in results.into_iter().enumerate() {
        match r {
            C11Outcome::Skipped(l) => out.label(l),
            C11Outcome::Pass { classes, nontrivial } => out.pass(&cases[i], nontrivial, &classes, &[]),
            C11Outcome::Fail(sig, msg) => {
                out.evaluations += 1;
                if out.failures.len() < 3 {
                    if sig == "harness-io" {
                        out.fail(&cases[i], &sig, &msg);
                    } else {
                        let base = cases[i].clone();
                        let sig2 = sig.clone();
                        // the target ordinal is kept by selector; shrinking the history keeps the case only if it still fails
                        let shrunk = shrink_history(&base.history, 40, &|h| {
                            let c = C11Case { history: h.clone(), ..base.clone() };
                            matches!(c11_check(&ext, &dir, &format!("s{}", i), &c), C11Outcome::Fail(s, _) if s == sig2)
                        });
                        let c = C11Case { history: shrunk, ..base };
                        let msg = match c11_check(&ext, &dir, &format!("s{}", i), &c) {
                            C11Outcome::Fail(_, m) => m,
                            _ => msg,
                        };
                        out.fail(&c, &sig, &msg);
                    }
                }
            }
        }
    }
    let _ = fs::remove_dir_all(&dir);
    Ok(out.to_json(
        "C11",
        "definitions as for C13(b); one addition (chosen by selector, in the first or a later variant, possibly removed later) is entered through add_datum_override (complete or partial: only what is wrong is overridden, the rest comes from the resolver for the real type) / copy_datum / add_dynamic_datum with its real type name and either size -1/+1/+align, alignment /2 or x2, or the may-be-uninitialised flag on a non-Copy type; in 40 % of the cases the next addition uses the same type. The perturbed module must be rejected by rustc, the control (same history, same entry point, right information) must compile. non-trivial: the perturbed datum shares a variant with another datum; distinct by hash of the case",
    ))
}

// ---------------------------------------------------------------------------------------------
// C14

#[derive(Clone, Debug, Serialize, Deserialize, Hash, PartialEq, Eq)]
pub struct C14Case {
    pub history: RHistory,
    /// (addition selector, marker)
    pub markers: Vec<(u16, u8)>,
}

fn c14_strategy() -> impl Strategy<Value = C14Case> {
    (rhistory(), prop::collection::vec((any::<u16>(), 0u8..5), 0..4)).prop_map(|(mut history, markers)| {
        history.fragsel = 0;
        C14Case { history, markers }
    })
}

fn c14_ext(case: &C14Case) -> Option<Ext> {
    let plain = catch_unwind(AssertUnwindSafe(|| build_ext(&case.history, &Ext::default()))).ok()?;
    let mut markers = BTreeMap::new();
    if plain.additions > 0 {
        for (sel, m) in &case.markers {
            markers.insert(pick(*sel, plain.additions), *m as usize);
        }
    }
    Some(Ext { perturb: None, apply_perturbation: false, markers, twin: false, force_type: None, alias_paths: false })
}

const PROBE_PRELUDE: &str = r#"#![allow(dead_code, unused_imports, unused_variables, unused_mut, non_camel_case_types)]
#[macro_use]
extern crate static_assertions;
use std::marker::PhantomData;
struct Probe<T: ?Sized>(PhantomData<T>);
trait Fallback { const IS_SEND: bool = false; const IS_SYNC: bool = false; }
impl<T: ?Sized> Fallback for Probe<T> {}
#[allow(dead_code)]
impl<T: ?Sized + Send> Probe<T> { const IS_SEND: bool = true; }
trait Fallback2 { const IS_SYNC2: bool = false; }
impl<T: ?Sized> Fallback2 for Probe<T> {}
impl<T: ?Sized + Sync> Probe<T> { const IS_SYNC2: bool = true; }
"#;

fn run_c14(n: usize) -> Result<Value, String> {
    let ext = discover_externs()?;
    let dir = work_dir("c14");
    let cases = sample(&c14_strategy(), n, 0xC14);
    let mut out = Acc::default();
    let mut prog = String::from(PROBE_PRELUDE);
    let mut main_body = String::new();
    struct Rec {
        case: usize,
        variant: usize,
        fields: Vec<usize>,
    }
    let mut built_defs: Vec<Option<Built>> = vec![];
    let mut recs: Vec<Rec> = vec![];
    for (k, case) in cases.iter().enumerate() {
        let e = match c14_ext(case) {
            Some(e) => e,
            None => {
                built_defs.push(None);
                continue;
            }
        };
        let (built, text) = match module_text(&case.history, &e, 0) {
            Some(x) => x,
            None => {
                built_defs.push(None);
                out.label("skipped_generator_panicked");
                continue;
            }
        };
        let def = dir.join(format!("def_{}.rs", k));
        fs::write(&def, &text).expect("write");
        prog.push_str(&format!("pub mod m{} {{ include!({:?}); }}\n", k, def.display().to_string()));
        for (v, var) in built.def.variants().enumerate() {
            let fields: Vec<usize> = var.data_sorted().map(datum_index).collect();
            main_body.push_str(&format!(
                "    println!(\"R {k} {v} 0 {{}} {{}}\", <Probe<m{k}::Record{v}>>::IS_SEND, <Probe<m{k}::Record{v}>>::IS_SYNC2);\n    println!(\"R {k} {v} 1 {{}} {{}}\", <Probe<m{k}::CappedRecord{v}<{{ m{k}::MAX_SIZE + 16 }}>>>::IS_SEND, <Probe<m{k}::CappedRecord{v}<{{ m{k}::MAX_SIZE + 16 }}>>>::IS_SYNC2);\n",
                k = k,
                v = v
            ));
            for d in &fields {
                let tn = built.def.datum_definitions().find(|x| datum_index(x.id()) == *d).unwrap().details().type_name().to_string();
                main_body.push_str(&format!("    println!(\"F {k} {d} {{}} {{}}\", <Probe<{tn}>>::IS_SEND, <Probe<{tn}>>::IS_SYNC2);\n", k = k, d = d, tn = tn));
            }
            recs.push(Rec { case: k, variant: v, fields });
        }
        built_defs.push(Some(built));
    }
    prog.push_str("fn main() {\n");
    prog.push_str(&main_body);
    prog.push_str("}\n");
    let src = dir.join("probe.rs");
    fs::write(&src, &prog).expect("write");
    let bin = dir.join("probe");
    let r = rustc(&ext, &src, &dir, Some(&bin));
    if !r.ok {
        let _ = fs::remove_dir_all(&dir);
        return Err(format!("the auto-trait probe program does not compile:\n{}", &r.stderr[..r.stderr.len().min(3000)]));
    }
    let outp = std::process::Command::new(&bin).output().map_err(|e| e.to_string())?;
    let text = String::from_utf8_lossy(&outp.stdout).to_string();
    let mut field_traits: BTreeMap<(usize, usize), (bool, bool)> = BTreeMap::new();
    let mut rec_traits: BTreeMap<(usize, usize, usize), (bool, bool)> = BTreeMap::new();
    for line in text.lines() {
        let p: Vec<&str> = line.split_whitespace().collect();
        match p.as_slice() {
            ["F", k, d, s, y] => {
                field_traits.insert((k.parse().unwrap(), d.parse().unwrap()), (*s == "true", *y == "true"));
            }
            ["R", k, v, c, s, y] => {
                rec_traits.insert((k.parse().unwrap(), v.parse().unwrap(), c.parse().unwrap()), (*s == "true", *y == "true"));
            }
            _ => {}
        }
    }
    let mut leak_reported = 0;
    for rec in &recs {
        let exp_send = rec.fields.iter().all(|d| field_traits[&(rec.case, *d)].0);
        let exp_sync = rec.fields.iter().all(|d| field_traits[&(rec.case, *d)].1);
        for cap in 0..2usize {
            let (s, y) = rec_traits[&(rec.case, rec.variant, cap)];
            out.evaluations += 1;
            let lacking = rec.fields.iter().filter(|d| !field_traits[&(rec.case, **d)].0 || !field_traits[&(rec.case, **d)].1).count();
            let later_without = recs.iter().any(|o| o.case == rec.case && o.variant > rec.variant && o.fields.iter().all(|d| field_traits[&(rec.case, *d)].0 && field_traits[&(rec.case, *d)].1));
            let nontrivial = rec.fields.len() >= 2 && lacking == 1 && later_without;
            let label = match (exp_send, exp_sync) {
                (true, true) => "all_fields_send_sync",
                (false, true) => "a_field_not_send",
                (true, false) => "a_field_not_sync",
                (false, false) => "a_field_neither",
            };
            *out.classes.entry(label.to_string()).or_default() += 1;
            *out.classes.entry(if cap == 0 { "cap_max_size" } else { "cap_larger" }.to_string()).or_default() += 1;
            if rec.fields.is_empty() {
                *out.classes.entry("empty_variant".to_string()).or_default() += 1;
            }
            let key = (rec.case, rec.variant, cap);
            if nontrivial || rec.fields.len() >= 2 {
                if out.distinct.insert(hash_of(&(hash_of(&cases[rec.case]), rec.variant, cap))) {
                    out.nontrivial += 1;
                    if out.samples.len() < 3 {
                        out.samples.push(json!({"case": cases[rec.case], "variant": rec.variant, "larger_capacity": cap == 1, "record_is_send": s, "record_is_sync": y, "fields_all_send": exp_send, "fields_all_sync": exp_sync}));
                    }
                }
            }
            let _ = key;
            let mut report = |sig: &str, msg: String| {
                let is_leak = sig.starts_with("c14:leak");
                if is_leak {
                    leak_reported += 1;
                    if leak_reported > 1 {
                        return;
                    }
                }
                if out.failures.len() < 6 {
                    out.failures.push(json!({"signature": sig, "message": msg, "case": {"case": cases[rec.case], "variant": rec.variant, "larger_capacity": cap == 1}}));
                }
            };
            let tname = if cap == 0 { format!("Record{}", rec.variant) } else { format!("CappedRecord{}<MAX_SIZE + 16>", rec.variant) };
            if s && !exp_send {
                report("c14:leak:send", format!("{} is Send although a field type of its variant is not", tname));
            }
            if y && !exp_sync {
                report("c14:leak:sync", format!("{} is Sync although a field type of its variant is not", tname));
            }
            if !s && exp_send {
                report("c14:missing:send", format!("{} is not Send although every field type of its variant is ({} fields)", tname, rec.fields.len()));
            }
            if !y && exp_sync {
                report("c14:missing:sync", format!("{} is not Sync although every field type of its variant is ({} fields)", tname, rec.fields.len()));
            }
        }
    }
    let _ = fs::remove_dir_all(&dir);
    Ok(out.to_json(
        "C14",
        "definitions as for C13(b) with up to 3 additions replaced by auto-trait marker types (Rc: !Send !Sync; Cell: !Sync; MutexGuard marker: !Send; raw pointer: neither; plain: both); one probe program per batch prints, for every RecordN, CappedRecordN<MAX_SIZE+16> and every field type, whether it is Send / Sync (inherent-const-shadows-trait-const probe); expected: a record type is Send (Sync) iff all field types of its variant are, both directions. one evaluation = one (record type, capacity). non-trivial: variant with >= 2 fields; distinct by hash of (case, variant, capacity)",
    ))
}

// ---------------------------------------------------------------------------------------------
// Accumulator

#[derive(Default)]
pub struct Acc {
    pub evaluations: u64,
    pub nontrivial: u64,
    pub distinct: HashSet<u64>,
    pub classes: BTreeMap<String, u64>,
    pub samples: Vec<Value>,
    pub failures: Vec<Value>,
}

impl Acc {
    pub fn label(&mut self, l: &str) {
        *self.classes.entry(l.to_string()).or_default() += 1;
    }
    pub fn pass<C: Serialize + Hash>(&mut self, case: &C, nontrivial: bool, classes: &[&str], more: &[&str]) {
        self.evaluations += 1;
        for c in classes.iter().chain(more.iter()) {
            self.label(c);
        }
        if nontrivial {
            self.nontrivial += 1;
            if self.distinct.insert(hash_of(case)) && self.samples.len() < 3 {
                self.samples.push(serde_json::to_value(case).unwrap());
            }
        }
    }
    pub fn fail<C: Serialize>(&mut self, case: &C, sig: &str, msg: &str) {
        self.failures.push(json!({"signature": sig, "message": msg, "case": serde_json::to_value(case).unwrap()}));
    }
    pub fn to_json(&self, prop: &str, rule: &str) -> Value {
        json!({
            "property": prop,
            "evaluations": self.evaluations,
            "nontrivial": self.nontrivial,
            "distinct_nontrivial": self.distinct.len(),
            "rule": rule,
            "classes": self.classes,
            "counters": {},
            "samples": self.samples,
            "failures": self.failures,
        })
    }
}

fn main() -> ExitCode {
    let args: Vec<String> = std::env::args().collect();
    vcore::silence_panics();
    if args.len() == 5 && args[1] == "run" {
        let n: usize = args[3].parse().expect("n");
        let res = match args[2].as_str() {
            "C13" => run_c13(n),
            "C03" => run_c03(n),
            "C11" => run_c11(n),
            "C14" => run_c14(n),
            "C17" => c17::run_c17(n),
            "C08" => c08::run_c08(n),
            "C09" => c08::run_c09(n),
            _ => return ExitCode::from(2),
        };
        return match res {
            Ok(v) => {
                fs::write(&args[4], serde_json::to_string_pretty(&v).unwrap()).expect("write");
                ExitCode::SUCCESS
            }
            Err(e) => {
                eprintln!("e5_probes: {}", e);
                ExitCode::from(3)
            }
        };
    }
    if args.len() == 4 && args[1] == "replay" {
        let text = fs::read_to_string(&args[3]).expect("read");
        let v: Value = serde_json::from_str(&text).expect("json");
        let case = v.get("case").cloned().unwrap_or(v);
        let ext = match discover_externs() {
            Ok(e) => e,
            Err(e) => {
                eprintln!("{}", e);
                return ExitCode::from(3);
            }
        };
        let dir = work_dir("replay");
        let verdict: Result<(), (String, String)> = match args[2].as_str() {
            "C13" => match serde_json::from_value::<C13Case>(case) {
                Ok(c) => c13_check(&ext, &dir, "r", &c).map(|_| ()),
                Err(e) => Err(("bad-replay-file".into(), e.to_string())),
            },
            "C11" => match serde_json::from_value::<C11Case>(case) {
                Ok(c) => match c11_check(&ext, &dir, "r", &c) {
                    C11Outcome::Fail(s, m) => Err((s, m)),
                    _ => Ok(()),
                },
                Err(e) => Err(("bad-replay-file".into(), e.to_string())),
            },
            "C17" => c17::replay(&case),
            "C08" | "C09" => c08::replay(&case),
            "C03" => match serde_json::from_value::<RHistory>(case) {
                Ok(h) => c03_check(&ext, &dir, "r", &h).map(|_| ()),
                Err(e) => Err(("bad-replay-file".into(), e.to_string())),
            },
            _ => Err(("replay-unsupported".into(), "replay of this property re-runs the whole batch: use the quick check".into())),
        };
        let _ = fs::remove_dir_all(&dir);
        return match verdict {
            Ok(()) => {
                println!("replay: property {} holds on this case", args[2]);
                ExitCode::SUCCESS
            }
            Err((s, m)) => {
                println!("replay: property {} VIOLATED [{}]: {}", args[2], s, m);
                ExitCode::from(1)
            }
        };
    }
    eprintln!("usage: e5_probes run <C11|C13|C14|C17> <n> <result.json> | replay <PROP> <case.json>");
    ExitCode::from(2)
}

#[allow(dead_code)]
fn _unused(_: &dyn Fn() -> String) -> String {
    panic_message(Box::new(()))
}
