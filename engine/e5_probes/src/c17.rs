//! C17: a recorded type name denotes the same type in generated code; table lookups ignore
//! whitespace and accept the short and the compiler's spelling.

use std::{
    collections::{BTreeMap, BTreeSet},
    fs,
    process::Command,
};

use proptest::prelude::*;
use serde::{Deserialize, Serialize};
use serde_json::{json, Value};

use crate::{common::*, sample, Acc};

#[derive(Clone, Debug, Serialize, Deserialize, Hash, PartialEq, Eq)]
pub enum Ty {
    Prim(u8),
    Str,
    BoxStr,
    Plain,
    Boxed(Box<Ty>),
    Vector(Box<Ty>),
    Opt(Box<Ty>),
    Res(Box<Ty>, Box<Ty>),
    Tuple(Vec<Ty>),
    Array(Box<Ty>, u8),
    BoxSlice(Box<Ty>),
    Gen(Box<Ty>),
    Deep(Box<Ty>),
    Two(Box<Ty>, Box<Ty>),
    /// const-generic user type in a module named like a std one
    StdLike(u8),
    /// user types at paths whose segments look like pieces of type syntax
    UserPath(u8),
    /// the type of another crate that truc knows about when built with its `uuid` feature
    Uuid,
    /// `depth` nested std generics (Vec / Option / Box by the bits of `pattern`) around a String
    Chain(u8, u16),
}

const USER_PATHS: [&str; 6] = [
    "vtypes::vec3_usize::Point",
    "vtypes::vec3::Point",
    "vtypes::core::option::Option2",
    "vtypes::alloc::vec::Vec3",
    "vtypes::i32_f64::Mixed_isize",
    "vtypes::x86_64::Reg8_u8",
];

const PRIMS: [&str; 16] = ["u8", "u16", "u32", "u64", "u128", "usize", "i8", "i16", "i32", "i64", "i128", "isize", "f32", "f64", "char", "bool"];

impl Ty {
    /// Short spelling: std types unqualified (as a user writes them), user types by their path.
    pub fn short(&self) -> String {
        match self {
            Ty::Prim(p) => PRIMS[*p as usize % 16].to_string(),
            Ty::Str => "String".into(),
            Ty::BoxStr => "Box<str>".into(),
            Ty::Plain => "vtypes::types::Plain".into(),
            Ty::Boxed(t) => format!("Box<{}>", t.short()),
            Ty::Vector(t) => format!("Vec<{}>", t.short()),
            Ty::Opt(t) => format!("Option<{}>", t.short()),
            Ty::Res(a, b) => format!("Result<{}, {}>", a.short(), b.short()),
            Ty::Tuple(ts) => match ts.len() {
                0 => "()".into(),
                1 => format!("({},)", ts[0].short()),
                _ => format!("({})", ts.iter().map(|t| t.short()).collect::<Vec<_>>().join(", ")),
            },
            Ty::Array(t, n) => format!("[{}; {}]", t.short(), n),
            Ty::BoxSlice(t) => format!("Box<[{}]>", t.short()),
            Ty::Gen(t) => format!("vtypes::types::inner::Gen<{}>", t.short()),
            Ty::Deep(t) => format!("vtypes::types::inner::deeper::Deep<{}>", t.short()),
            Ty::Two(a, b) => format!("vtypes::types::Two<{}, {}>", a.short(), b.short()),
            Ty::StdLike(n) => format!("vtypes::string::String<{}>", 1 + n % 16),
            Ty::UserPath(n) => USER_PATHS[*n as usize % USER_PATHS.len()].to_string(),
            Ty::Uuid => "uuid::Uuid".into(),
            Ty::Chain(depth, pattern) => {
                let mut s = "String".to_string();
                for k in 0..(*depth as usize) {
                    let w = match (pattern >> (2 * (k % 8))) & 3 {
                        0 => "Vec",
                        1 => "Option",
                        2 => "Box",
                        _ => "Vec",
                    };
                    s = format!("{}<{}>", w, s);
                }
                s
            }
        }
    }
    pub fn depth(&self) -> usize {
        match self {
            Ty::Prim(_) | Ty::Str | Ty::BoxStr | Ty::Plain | Ty::StdLike(_) | Ty::UserPath(_) | Ty::Uuid => 1,
            Ty::Chain(d, _) => 1 + *d as usize,
            Ty::Boxed(t) | Ty::Vector(t) | Ty::Opt(t) | Ty::Array(t, _) | Ty::BoxSlice(t) | Ty::Gen(t) | Ty::Deep(t) => 1 + t.depth(),
            Ty::Res(a, b) | Ty::Two(a, b) => 1 + a.depth().max(b.depth()),
            Ty::Tuple(ts) => 1 + ts.iter().map(|t| t.depth()).max().unwrap_or(0),
        }
    }
    /// The rewritten std paths used (of the five) and whether a user type is nested in a std type.
    fn features(&self, inside_std: bool, std_used: &mut BTreeSet<&'static str>, user_in_std: &mut bool, kinds: &mut BTreeSet<&'static str>) {
        match self {
            Ty::Prim(_) => {}
            Ty::Str => {
                std_used.insert("String");
            }
            Ty::Chain(..) => {
                std_used.insert("String");
                std_used.insert("Vec");
                std_used.insert("Option");
                kinds.insert("deep_generic_chain");
            }
            Ty::BoxStr => {
                std_used.insert("Box");
                kinds.insert("box_str");
            }
            Ty::Plain | Ty::StdLike(_) | Ty::UserPath(_) | Ty::Uuid => {
                kinds.insert(match self {
                    Ty::Plain => "user_type",
                    Ty::Uuid => "uuid_crate_type",
                    Ty::StdLike(_) => "user_type_std_like_path",
                    _ => "user_type_syntax_like_path",
                });
                if inside_std {
                    *user_in_std = true;
                }
            }
            Ty::Boxed(t) => {
                std_used.insert("Box");
                t.features(true, std_used, user_in_std, kinds);
            }
            Ty::Vector(t) => {
                std_used.insert("Vec");
                t.features(true, std_used, user_in_std, kinds);
            }
            Ty::Opt(t) => {
                std_used.insert("Option");
                t.features(true, std_used, user_in_std, kinds);
            }
            Ty::Res(a, b) => {
                std_used.insert("Result");
                a.features(true, std_used, user_in_std, kinds);
                b.features(true, std_used, user_in_std, kinds);
            }
            Ty::Tuple(ts) => {
                kinds.insert(match ts.len() {
                    0 => "unit",
                    1 => "tuple1",
                    _ => "tuple",
                });
                for t in ts {
                    t.features(inside_std, std_used, user_in_std, kinds);
                }
            }
            Ty::Array(t, _) => {
                kinds.insert("array");
                t.features(inside_std, std_used, user_in_std, kinds);
            }
            Ty::BoxSlice(t) => {
                std_used.insert("Box");
                kinds.insert("boxed_slice");
                t.features(true, std_used, user_in_std, kinds);
            }
            Ty::Gen(t) | Ty::Deep(t) => {
                kinds.insert("user_generic");
                if inside_std {
                    *user_in_std = true;
                }
                t.features(inside_std, std_used, user_in_std, kinds);
            }
            Ty::Two(a, b) => {
                kinds.insert("user_generic");
                if inside_std {
                    *user_in_std = true;
                }
                a.features(inside_std, std_used, user_in_std, kinds);
                b.features(inside_std, std_used, user_in_std, kinds);
            }
        }
    }
}

fn ty_strategy() -> impl Strategy<Value = Ty> {
    let leaf = prop_oneof![12 => (0u8..16).prop_map(Ty::Prim), 4 => Just(Ty::Str), 2 => Just(Ty::BoxStr), 2 => Just(Ty::Plain), 1 => (0u8..16).prop_map(Ty::StdLike), 2 => (0u8..6).prop_map(Ty::UserPath), 1 => Just(Ty::Uuid), 1 => (5u8..12, any::<u16>()).prop_map(|(d, p)| Ty::Chain(d, p))];
    leaf.prop_recursive(7, 64, 5, |inner| {
        prop_oneof![
            2 => inner.clone().prop_map(|t| Ty::Boxed(Box::new(t))),
            2 => inner.clone().prop_map(|t| Ty::Vector(Box::new(t))),
            2 => inner.clone().prop_map(|t| Ty::Opt(Box::new(t))),
            2 => (inner.clone(), inner.clone()).prop_map(|(a, b)| Ty::Res(Box::new(a), Box::new(b))),
            3 => prop::collection::vec(inner.clone(), 0..4).prop_map(Ty::Tuple),
            1 => prop::collection::vec(inner.clone(), 4..8).prop_map(Ty::Tuple),
            2 => (inner.clone(), prop_oneof![4 => 0u8..5, 1 => 30u8..70]).prop_map(|(t, n)| Ty::Array(Box::new(t), n)),
            1 => inner.clone().prop_map(|t| Ty::BoxSlice(Box::new(t))),
            1 => inner.clone().prop_map(|t| Ty::Gen(Box::new(t))),
            1 => inner.clone().prop_map(|t| Ty::Deep(Box::new(t))),
            1 => (inner.clone(), inner).prop_map(|(a, b)| Ty::Two(Box::new(a), Box::new(b))),
        ]
    })
}

#[derive(Clone, Debug, Serialize, Deserialize, Hash, PartialEq, Eq)]
pub struct TyCase {
    pub ty: Ty,
    pub spaces: Vec<u8>,
}

const P1_HELPERS: &str = r#"
use truc::record::type_resolver::{HostTypeResolver, StaticTypeResolver, TypeInfo, TypeResolver};
use truc::record::definition::builder::native::{DatumDefinitionOverride, NativeRecordDefinitionBuilder};

fn tokens(s: &str) -> Vec<String> {
    let mut out: Vec<String> = vec![];
    let cs: Vec<char> = s.chars().collect();
    let mut i = 0;
    while i < cs.len() {
        let c = cs[i];
        if c.is_whitespace() {
            i += 1;
        } else if c.is_alphanumeric() || c == '_' {
            let mut t = String::new();
            while i < cs.len() && (cs[i].is_alphanumeric() || cs[i] == '_') {
                t.push(cs[i]);
                i += 1;
            }
            out.push(t);
        } else if c == ':' && i + 1 < cs.len() && cs[i + 1] == ':' {
            out.push("::".to_string());
            i += 2;
        } else {
            out.push(c.to_string());
            i += 1;
        }
    }
    out
}

fn respace(s: &str, plan: &[u8]) -> String {
    let toks = tokens(s);
    let mut out = String::new();
    for (i, t) in toks.iter().enumerate() {
        out.push_str(t);
        if i + 1 < toks.len() {
            let ident = |x: &str| x.chars().all(|c| c.is_alphanumeric() || c == '_');
            let mut n = if plan.is_empty() { 0 } else { plan[i % plan.len()] as usize };
            if ident(t) && ident(&toks[i + 1]) && n == 0 {
                n = 1;
            }
            for _ in 0..n {
                out.push(' ');
            }
        }
    }
    out
}

fn emit<T>(i: usize, table: &mut StaticTypeResolver) {
    let info = std::panic::catch_unwind(|| HostTypeResolver.type_info::<T>());
    match info {
        Ok(info) => {
            println!("N\t{}\t{}", i, info.name);
            let _ = std::panic::catch_unwind(std::panic::AssertUnwindSafe(|| table.add_type::<T>()));
        }
        Err(_) => println!("NP\t{}", i),
    }
}

fn look<T>(i: usize, table: &StaticTypeResolver, short: &str, plan: &[u8]) {
    let expected = match std::panic::catch_unwind(|| HostTypeResolver.type_info::<T>()) {
        Ok(e) => e,
        Err(_) => return,
    };
    let compiler = std::any::type_name::<T>().to_string();
    let spellings = [short.to_string(), compiler.clone(), respace(short, plan), respace(&compiler, plan), respace(short, &[0]), respace(&compiler, &[2, 0, 1])];
    for (k, s) in spellings.iter().enumerate() {
        let r = std::panic::catch_unwind(std::panic::AssertUnwindSafe(|| table.dynamic_type_info(s)));
        match r {
            Ok(d) => {
                let ok = d.info.name == expected.name && d.info.size == std::mem::size_of::<T>() && d.info.align == std::mem::align_of::<T>();
                println!("L\t{}\t{}\t{}\t{}", i, k, if ok { "OK" } else { "WRONG" }, s);
            }
            Err(_) => println!("L\t{}\t{}\tNOTFOUND\t{}", i, k, s),
        }
    }
}

/// Every other route by which a name gets recorded for `T`: typed and by-name lookups in the table of the
/// generated types and in a table of the standard types only (`add_all_types`, truc built with its `uuid` feature) (where `T` may be absent: no answer is fine, an
/// answer for another type is not), and data added to a native builder over the table.
fn routes<T>(i: usize, table: &StaticTypeResolver, std_table: &StaticTypeResolver, short: &str, plan: &[u8]) {
    fn quiet<R>(f: impl FnOnce() -> R) -> Option<R> {
        std::panic::catch_unwind(std::panic::AssertUnwindSafe(f)).ok()
    }
    let report = |how: &str, info: Option<TypeInfo>| {
        if let Some(info) = info {
            let layout = info.size == std::mem::size_of::<T>() && info.align == std::mem::align_of::<T>();
            println!("X\t{}\t{}\t{}\t{}", i, how, if layout { "LAYOUT_OK" } else { "LAYOUT_WRONG" }, info.name);
        }
    };
    let compiler = std::any::type_name::<T>().to_string();
    let respaced = respace(&compiler, plan);
    report("table.type_info::<T>()", quiet(|| table.type_info::<T>()));
    report("std_table.type_info::<T>()", quiet(|| std_table.type_info::<T>()));
    report("std_table.dynamic_type_info(short)", quiet(|| std_table.dynamic_type_info(short)).map(|d| d.info));
    report("std_table.dynamic_type_info(compiler's)", quiet(|| std_table.dynamic_type_info(&compiler)).map(|d| d.info));
    let mut b = NativeRecordDefinitionBuilder::new(table);
    let mut added = vec![];
    added.push(("builder.add_datum::<T>", quiet(|| b.add_datum::<T, _>("a"))));
    added.push(("builder.add_dynamic_datum(short)", quiet(|| b.add_dynamic_datum("b", short))));
    added.push(("builder.add_dynamic_datum(compiler's)", quiet(|| b.add_dynamic_datum("c", &compiler))));
    added.push(("builder.add_dynamic_datum(compiler's, re-spaced)", quiet(|| b.add_dynamic_datum("d", &respaced))));
    added.push((
        "builder.add_datum_override::<T>(flag only)",
        quiet(|| b.add_datum_override::<T, _>("e", DatumDefinitionOverride { type_name: None, size: None, align: None, allow_uninit: Some(false) })),
    ));
    for (how, id) in added {
        if let Some(Ok(id)) = id {
            report(how, quiet(|| b[id].details().type_info().clone()));
        }
    }
}
"#;

struct Verdicts {
    /// (case, route, name, compiler's message): a name recorded through another route that does not denote the type
    route_mismatch: Vec<(usize, String, String, String)>,
    /// per route: number of answers obtained
    route_answers: BTreeMap<String, u64>,
    /// number of recorded names that differ from the host resolver's and got a probe of their own
    extra_probes: u64,
    recorded: Vec<Option<String>>,
    lookup_failures: Vec<Vec<String>>,
    type_mismatch: Vec<Option<String>>,
}

fn pipeline(ext: &Externs, dir: &std::path::Path, cases: &[TyCase]) -> Result<Verdicts, String> {
    // P1
    let mut p1 = String::new();
    p1.push_str(P1_HELPERS);
    p1.push_str("fn main() {\n    std::panic::set_hook(Box::new(|_| {}));\n    let mut table = StaticTypeResolver::new();\n    let mut std_table = StaticTypeResolver::new();\n    std_table.add_all_types();\n");
    for (i, c) in cases.iter().enumerate() {
        p1.push_str(&format!("    emit::<{}>({}, &mut table);\n", c.ty.short(), i));
    }
    for (i, c) in cases.iter().enumerate() {
        p1.push_str(&format!("    look::<{}>({}, &table, {:?}, &{:?});\n", c.ty.short(), i, c.ty.short(), c.spaces));
    }
    for (i, c) in cases.iter().enumerate() {
        p1.push_str(&format!("    routes::<{}>({}, &table, &std_table, {:?}, &{:?});\n", c.ty.short(), i, c.ty.short(), c.spaces));
    }
    p1.push_str("}\n");
    let p1_src = dir.join("p1_main.rs");
    fs::write(&p1_src, &p1).map_err(|e| e.to_string())?;
    let target = ext.engine_dir.join("target_p");
    let out = Command::new("cargo")
        .current_dir(&ext.engine_dir)
        .env("CARGO_NET_OFFLINE", "true")
        .env("VERIF_P1_SRC", &p1_src)
        .args(["build", "-q", "-p", "e5_p1", "--target-dir"])
        .arg(&target)
        .output()
        .map_err(|e| e.to_string())?;
    if !out.status.success() {
        return Err(format!("P1 does not build:\n{}", String::from_utf8_lossy(&out.stderr).chars().take(3000).collect::<String>()));
    }
    let run = Command::new(target.join("debug").join("e5_p1")).output().map_err(|e| e.to_string())?;
    let text = String::from_utf8_lossy(&run.stdout).to_string();
    let mut recorded: Vec<Option<String>> = vec![None; cases.len()];
    let mut lookup_failures: Vec<Vec<String>> = vec![vec![]; cases.len()];
    let mut routes: Vec<(usize, String, String)> = vec![];
    let mut route_answers: BTreeMap<String, u64> = BTreeMap::new();
    for line in text.lines() {
        let p: Vec<&str> = line.splitn(5, '\t').collect();
        match p.as_slice() {
            ["N", i, name] => recorded[i.parse::<usize>().unwrap()] = Some(name.to_string()),
            ["X", i, how, layout, name] => {
                let i = i.parse::<usize>().unwrap();
                if *layout != "LAYOUT_OK" {
                    lookup_failures[i].push(format!("{} answers {:?} with a size / alignment that is not the type's", how, name));
                }
                *route_answers.entry(format!("route_answered: {}", how)).or_default() += 1;
                routes.push((i, how.to_string(), name.to_string()));
            }
            ["L", i, k, verdict, spelling] => {
                if *verdict != "OK" {
                    lookup_failures[i.parse::<usize>().unwrap()].push(format!("spelling #{} {:?}: {}", k, spelling, verdict));
                }
            }
            _ => {}
        }
    }
    // P2
    let mut p2 = String::from("#![allow(dead_code)]\nuse std::marker::PhantomData;\n");
    let header_lines = p2.lines().count();
    for (i, c) in cases.iter().enumerate() {
        match &recorded[i] {
            Some(r) => p2.push_str(&format!("pub fn p_{}(x: PhantomData<{}>) -> PhantomData<{}> {{ x }}\n", i, c.ty.short(), r)),
            None => p2.push_str("\n"),
        }
    }
    // names recorded through the other routes: those that are not the host resolver's name get a probe of their own
    let mut extra: Vec<(usize, String, String)> = vec![];
    for (i, how, name) in routes {
        if recorded[i].as_deref() != Some(name.as_str()) && !extra.iter().any(|(j, _, n)| *j == i && *n == name) {
            p2.push_str(&format!("pub fn q_{}_{}(x: PhantomData<{}>) -> PhantomData<{}> {{ x }}\n", i, extra.len(), cases[i].ty.short(), name));
            extra.push((i, how, name));
        }
    }
    let p2_src = dir.join("p2.rs");
    fs::write(&p2_src, &p2).map_err(|e| e.to_string())?;
    let mut cmd = Command::new("rustc");
    cmd.arg("--edition").arg("2021").arg("--cap-lints").arg("allow").arg("--crate-type").arg("lib").arg("--emit=metadata").arg("--error-format=short");
    cmd.arg("--out-dir").arg(dir).arg("-L").arg(format!("dependency={}", ext.deps_dir.display()));
    for (name, path) in &ext.externs {
        cmd.arg("--extern").arg(format!("{}={}", name, path.display()));
    }
    cmd.arg(&p2_src);
    let o = cmd.output().map_err(|e| e.to_string())?;
    let mut type_mismatch: Vec<Option<String>> = vec![None; cases.len()];
    let mut route_mismatch: Vec<(usize, String, String, String)> = vec![];
    if !o.status.success() {
        let stderr = String::from_utf8_lossy(&o.stderr).to_string();
        let mut any = false;
        for line in stderr.lines() {
            // path:LINE:COL: error[...]: message
            if let Some(pos) = line.find("p2.rs:") {
                let rest = &line[pos + 6..];
                if let Some(n) = rest.split(':').next().and_then(|n| n.parse::<usize>().ok()) {
                    if n > header_lines && n - header_lines - 1 < cases.len() && line.contains("error") {
                        let idx = n - header_lines - 1;
                        if type_mismatch[idx].is_none() {
                            type_mismatch[idx] = Some(line.to_string());
                            any = true;
                        }
                    } else if n > header_lines + cases.len() && n - header_lines - cases.len() - 1 < extra.len() && line.contains("error") {
                        let (i, how, name) = extra[n - header_lines - cases.len() - 1].clone();
                        if !route_mismatch.iter().any(|(j, h, _, _)| *j == i && *h == how) {
                            route_mismatch.push((i, how, name, line.to_string()));
                        }
                        any = true;
                    }
                }
            }
        }
        if !any {
            return Err(format!("P2 rejected but no error could be mapped to a type:\n{}", stderr.chars().take(2000).collect::<String>()));
        }
    }
    Ok(Verdicts { recorded, lookup_failures, type_mismatch, route_mismatch, route_answers, extra_probes: extra.len() as u64 })
}

fn judge(cases: &[TyCase], v: &Verdicts, out: &mut Acc) {
    for (k, n) in &v.route_answers {
        *out.classes.entry(k.clone()).or_default() += n;
    }
    *out.classes.entry("recorded_names_other_than_the_host_resolvers".to_string()).or_default() += v.extra_probes;
    for (i, c) in cases.iter().enumerate() {
        out.evaluations += 1;
        let mut std_used = BTreeSet::new();
        let mut user_in_std = false;
        let mut kinds = BTreeSet::new();
        c.ty.features(false, &mut std_used, &mut user_in_std, &mut kinds);
        for k in &kinds {
            out.label(k);
        }
        out.label(match c.ty.depth() {
            1 => "depth1",
            2 => "depth2",
            3 => "depth3",
            4 => "depth4",
            5 => "depth5",
            _ => "depth6_or_more",
        });
        let nontrivial = c.ty.depth() >= 3 && (std_used.len() >= 2 || user_in_std);
        let mut failed = false;
        match &v.recorded[i] {
            None => {
                failed = true;
                if out.failures.len() < 4 {
                    out.failures.push(json!({"signature": "c17:naming-panicked", "message": format!("recording the name of {} panicked", c.ty.short()), "case": c}));
                }
            }
            Some(r) => {
                if let Some(e) = &v.type_mismatch[i] {
                    failed = true;
                    if out.failures.len() < 4 {
                        out.failures.push(json!({"signature": "c17:different-type", "message": format!("type {} is recorded as {:?}, which does not denote the same type where generated code is compiled: {}", c.ty.short(), r, e), "case": c}));
                    }
                }
            }
        }
        for (_, how, name, e) in v.route_mismatch.iter().filter(|r| r.0 == i) {
            failed = true;
            if out.failures.len() < 4 {
                out.failures.push(json!({"signature": "c17:different-type", "message": format!("type {} is recorded as {:?} through {}, which does not denote the same type where generated code is compiled: {}", c.ty.short(), name, how, e), "case": c}));
            }
        }
        if !v.lookup_failures[i].is_empty() {
            failed = true;
            if out.failures.len() < 4 {
                out.failures.push(json!({"signature": "c17:lookup", "message": format!("type {} registered in a table is not found / wrongly answered for: {}", c.ty.short(), v.lookup_failures[i].join("; ")), "case": c}));
            }
        }
        if !failed && nontrivial {
            out.nontrivial += 1;
            if out.distinct.insert(crate::hash_of(c)) && out.samples.len() < 4 {
                out.samples.push(json!({"type": c.ty.short(), "recorded": v.recorded[i], "spaces": c.spaces}));
            }
        }
    }
}

pub fn run_c17(n: usize) -> Result<Value, String> {
    let ext = discover_externs()?;
    let dir = work_dir("c17");
    let raw = sample(&(ty_strategy(), prop::collection::vec(0u8..4, 1..6)).prop_map(|(ty, spaces)| TyCase { ty, spaces }), n, 0xC17);
    // one registration per distinct type
    let mut seen = BTreeSet::new();
    let cases: Vec<TyCase> = raw.into_iter().filter(|c| seen.insert(c.ty.short())).collect();
    let v = pipeline(&ext, &dir, &cases)?;
    let mut out = Acc::default();
    judge(&cases, &v, &mut out);
    let _ = fs::remove_dir_all(&dir);
    Ok(out.to_json(
        "C17",
        "types from the grammar T ::= 16 primitives | String | Box<str> | Box<T> | Vec<T> | Option<T> | Result<T,T> | tuples of arity 0..3 | [T; n] | Box<[T]> | user types (plain, generic, nested-module generic, two-parameter, const-generic at a std-like path, types at paths whose segments look like type syntax: `vec3_usize::Point`, `core::option::Option2`, `alloc::vec::Vec3`, ...), nesting depth <= 5, deduplicated; program P1 (compiled, run) prints the name truc records for each and looks each up in a StaticTypeResolver by 6 spellings (short, compiler's, each re-spaced by a generated plan, no spaces, extra spaces); the name recorded for each type through the other routes is printed too (typed lookup in that table; typed and by-name lookups in a table of the standard types only (`add_all_types`, truc built with its `uuid` feature), where no answer is fine but an answer for another type is not; data added to a native builder over the table through add_datum, add_dynamic_datum with three spellings and a partial override); program P2 must type-check `fn(PhantomData<T as written>) -> PhantomData<T as recorded>` for every type and every distinct recorded name, and every answer must carry the type's size and alignment. non-trivial: depth >= 3 and (>= 2 of the 5 rewritten std paths or a user type nested in a std type); distinct by hash of the type",
    ))
}

pub fn replay(case: &Value) -> Result<(), (String, String)> {
    let c: TyCase = serde_json::from_value(case.clone()).map_err(|e| ("bad-replay-file".to_string(), e.to_string()))?;
    let ext = discover_externs().map_err(|e| ("harness-io".to_string(), e))?;
    let dir = work_dir("c17r");
    let cases = vec![c];
    let v = pipeline(&ext, &dir, &cases).map_err(|e| ("harness-io".to_string(), e))?;
    let mut out = Acc::default();
    judge(&cases, &v, &mut out);
    let _ = fs::remove_dir_all(&dir);
    match out.failures.first() {
        Some(f) => Err((f["signature"].as_str().unwrap_or("").to_string(), f["message"].as_str().unwrap_or("").to_string())),
        None => Ok(()),
    }
}
