//! Stage 1 of the compiled-code checks: generates record definitions over real field types, runs
//! them through truc, and writes truc's output verbatim (`def_k.rs`) next to a thin dynamic
//! adapter (`glue_k.rs`, generated from the definition, no offsets, no oracle) and `all.rs`.
//!

use std::{collections::BTreeMap, fmt::Write as _, fs, path::Path};

use proptest::prelude::*;
use serde::{Deserialize, Serialize};
use truc::{
    generator::{
        config::GeneratorConfig,
        fragment::{clone::CloneImplGenerator, serde::SerdeImplGenerator, FragmentGenerator},
        generate,
    },
    record::{
        definition::{
            builder::native::{DatumDefinitionOverride, NativeRecordDefinitionBuilder},
            DatumDefinition, DatumId, NativeDatumDetails, RecordDefinition,
        },
        type_resolver::{DynamicTypeInfo, HostTypeResolver, TypeInfo, TypeResolver},
    },
};
use vcore::{datum_index, pick, strat_strategy, Strat};
use vtypes::{with_menu_type, MENU};

#[derive(Clone, Debug, Serialize, Deserialize, PartialEq, Eq, Hash)]
pub enum RReq {
    Add { menu: u16, uninit: bool, name: Option<u8> },
    Remove { sel: u16 },
    Close { strat: Strat },
    /// Removes one of the data added since the last close (any of them, not only the last one).
    RemovePending { sel: u16 },
}

#[derive(Clone, Debug, Serialize, Deserialize, PartialEq, Eq, Hash)]
pub struct RHistory {
    pub reqs: Vec<RReq>,
    pub final_strat: Strat,
    /// bit 0: clone fragment, bit 1: serde fragment
    pub fragsel: u8,
    /// 0: whole menu; 1: small alignments only, plus over-aligned zero-size types (so that a
    /// zero-size datum is the most aligned of the definition); 2: wide (the first variant has
    /// 17..=40 fields, sometimes 66..=100); 3: long (up to 11 variants: the blocks are replayed twice); 4: big values
    #[serde(default)]
    pub profile: u8,
}

/// Menu of profile 1.
pub const LOW_ALIGN: [usize; 14] = [0, 1, 5, 11, 24, 12, 30, 23, 2, 14, 13, 14, 13, 24];

/// Menu of profile 4: big values (records well above 1 KB).
pub const BIG: [usize; 20] = [35, 31, 33, 21, 17, 36, 3, 2, 35, 36, 35, 26, 42, 42, 47, 48, 47, 48, 49, 2];

/// Menu of profile 5: plain (`Copy`) data only, every one of them allowed to stay uninitialised.
pub const PLAIN: [usize; 16] = [0, 1, 2, 3, 5, 6, 8, 9, 10, 11, 15, 29, 30, 33, 37, 7];

pub const NAME_POOL: [&str; 16] = [
    "alpha", "beta", "gamma", "delta", "eps", "zeta", "count2", "is_ok", "the_value", "x_1", "kappa_mu", "n0", "r#type", "userId", "user_id",
    "Flags",
];

/// Weighted menu: tokens and owned types are over-represented.
pub const WEIGHTED: [usize; 90] = [
    0, 1, 2, 3, 4, 5, 6, 7, 8, 9, 10, 11, 12, 13, 14, 15, 16, 17, 18, 19, 20, 21, 22, 23, 24, 25, 26, 27, 28, 29, 30, // once each
    22, 23, 24, 25, 26, 27, 28, 22, 24, 26, 28, // tokens
    17, 18, 19, 20, 21, 17, 20, 20, 20, 19, // owned (optional values a bit more)
    12, 13, 14, 5, 8, 2, 3, 0, // zero-size, odd sizes, integers
    31, 32, 33, 31, 32, 31, 32, 33, // large token, vector of tokens, large plain data
    34, 35, 34, // cache-line alignment, 320 bytes
    42, 42, 43, 43, 44,
    45, 45, 46, 46, 46, // 20 bytes, droppable value aligned on 32
    36, 37, 37, 38, 39, 40, 40, 41, 41, // 1.3 KB token, floats, fn pointer, raw pointer, boxed closure, std-like user path
];

pub fn add_req() -> impl Strategy<Value = RReq> {
    (any::<u16>(), prop::bool::weighted(0.4), prop::option::weighted(0.5, 0u8..16)).prop_map(|(menu, uninit, name)| RReq::Add { menu, uninit, name })
}

/// One variant: removals of carried-over data, additions, possibly the removal of a datum that is
/// still pending, then the close.
pub fn block(first: bool) -> impl Strategy<Value = Vec<RReq>> {
    (
        prop::collection::vec(any::<u16>().prop_map(|sel| RReq::Remove { sel }), if first { 0..1 } else { 0..4 }),
        prop::collection::vec(add_req(), if first { 1..7 } else { 0..5 }),
        prop::option::weighted(0.15, any::<u16>()),
        prop_oneof![6 => Just(Strat::Simple), 2 => Just(Strat::Basic), 1 => Just(Strat::Append), 1 => Just(Strat::AppendReverse)],
        prop::bool::weighted(0.08),
        prop::option::weighted(0.12, (any::<u16>(), prop::collection::vec(add_req(), 0..3))),
    )
        .prop_map(|(removes, adds, pending_removal, strat, empty, mid_removal)| {
            let mut v = vec![];
            if !empty {
                v.extend(removes);
                v.extend(adds);
                if let Some((sel, more)) = mid_removal {
                    // any of the pending data goes away, then further data are added
                    v.push(RReq::RemovePending { sel });
                    v.extend(more);
                }
                if let Some(sel) = pending_removal {
                    // the last current datum is the most recently added one
                    v.push(RReq::Remove { sel: sel | 0xF000 });
                }
            }
            v.push(RReq::Close { strat });
            v
        })
}

pub fn rhistory() -> impl Strategy<Value = RHistory> {
    (
        block(true),
        prop_oneof![1 => Just(vec![]).boxed(), 9 => prop::collection::vec(block(false), 1..6).boxed()],
        strat_strategy(),
        0u8..4,
        prop_oneof![10 => Just(0u8), 2 => Just(1u8), 2 => Just(2u8), 1 => Just(3u8), 2 => Just(4u8), 2 => Just(5u8)],
    )
        .prop_map(|(first, rest, final_strat, fragsel, profile)| {
            let mut reqs = first;
            if profile == 2 {
                // widen the first variant: replay its additions until there are 17..=22 of them
                let adds: Vec<RReq> = reqs.iter().filter(|r| matches!(r, RReq::Add { .. })).cloned().collect();
                let close = reqs.pop();
                let f = adds.len() * 7 + rest.len() * 5 + reqs.len();
                let want = if f % 7 == 3 { 66 + f % 35 } else if f % 3 == 0 { 36 + f % 5 } else { 17 + f % 19 };
                let mut k = 0usize;
                while !adds.is_empty() && reqs.iter().filter(|r| matches!(r, RReq::Add { .. })).count() < want {
                    if let RReq::Add { menu, uninit, .. } = &adds[k % adds.len()] {
                        reqs.push(RReq::Add { menu: menu.wrapping_mul(31).wrapping_add((k as u16).wrapping_mul(977)), uninit: *uninit, name: None });
                    }
                    k += 1;
                }
                reqs.extend(close);
                // then a step that removes most of them at once, last first (more than 32 removals when the
                // variant is wide enough), and adds a couple of fields
                let n_fields = reqs.iter().filter(|r| matches!(r, RReq::Add { .. })).count();
                if n_fields >= 20 && f % 4 != 1 {
                    for _ in 0..(n_fields - 3) {
                        reqs.push(RReq::Remove { sel: 0xFFFF });
                    }
                    for a in adds.iter().take(2) {
                        reqs.push(a.clone());
                    }
                    reqs.push(RReq::Close { strat: Strat::Simple });
                }
            }
            for b in &rest {
                reqs.extend(b.iter().cloned());
            }
            if profile == 3 {
                for b in &rest {
                    reqs.extend(b.iter().cloned());
                }
            }
            RHistory { reqs, final_strat, fragsel, profile }
        })
}

/// Every variant of the history closed by one strategy (every batch has definitions closed by `basic` only, by
/// `append_data` only and by `append_data_reverse` only: the default strategy dominates the random ones).
pub fn single_strategy(mut h: RHistory, strat: Strat) -> RHistory {
    for r in h.reqs.iter_mut() {
        if let RReq::Close { strat: s } = r {
            *s = strat;
        }
    }
    h.final_strat = strat;
    h
}

/// Makes the first variant of a history very wide (`want` additions, above the 64 of a machine word of
/// flags), with both optional fragments; every batch of compiled definitions has one of these.
pub fn very_wide(mut h: RHistory, want: usize) -> RHistory {
    let first_close = h.reqs.iter().position(|r| matches!(r, RReq::Close { .. })).unwrap_or(h.reqs.len());
    let adds: Vec<RReq> = h.reqs[..first_close].iter().filter(|r| matches!(r, RReq::Add { .. })).cloned().collect();
    let mut extra = vec![];
    let mut k = 0usize;
    while !adds.is_empty() && adds.len() + extra.len() < want {
        if let RReq::Add { menu, uninit, .. } = &adds[k % adds.len()] {
            extra.push(RReq::Add { menu: menu.wrapping_mul(31).wrapping_add((k as u16).wrapping_mul(977)), uninit: *uninit ^ (k % 3 == 0), name: None });
        }
        k += 1;
    }
    h.reqs.splice(first_close..first_close, extra);
    h.profile = 2;
    h.fragsel = 3;
    h
}

pub struct Built {
    pub def: RecordDefinition<NativeDatumDetails>,
    /// datum id -> menu index (>= MARKER_BASE: marker type)
    pub menu: BTreeMap<usize, usize>,
    /// datum id of the perturbed datum (compiler probes)
    pub perturbed_id: Option<usize>,
    /// number of additions performed
    pub additions: usize,
    /// datum id -> position of its declaration among the additions of the history
    pub declared: BTreeMap<usize, usize>,
}

pub const MAX_VARIANTS: usize = 6;
pub const MAX_FIELDS: usize = 9;

#[derive(Clone, Copy, Debug, Serialize, Deserialize, PartialEq, Eq, Hash)]
pub enum PerturbKind {
    SizeMinus1,
    SizePlus1,
    SizePlusAlign,
    AlignHalf,
    AlignDouble,
    /// not a power of two
    AlignMinus1,
    AlignPlus1,
    /// may-be-uninitialised flag on a type that is not `Copy`
    UninitNonCopy,
}

#[derive(Clone, Copy, Debug, Serialize, Deserialize, PartialEq, Eq, Hash)]
pub enum EntryKind {
    /// every piece of information given by override, `T = ()`
    Override,
    CopyDatum,
    Dynamic,
    /// `add_datum::<T>` / `add_datum_allow_uninit::<T>`: everything from the resolver
    Typed,
    /// `add_datum_override::<T>` overriding the type name only (the documented use), the flag when needed
    NameOnly,
}

/// Extensions of the plain definition generator used by the compiler probes.
#[derive(Clone, Debug, Default, Serialize, Deserialize, PartialEq, Eq, Hash)]
pub struct Ext {
    /// (ordinal of the addition, kind, entry point); `apply == false`: the control (the addition
    /// still goes through the same entry point, with the right information).
    pub perturb: Option<(usize, PerturbKind, EntryKind)>,
    pub apply_perturbation: bool,
    /// ordinal of the addition -> marker type (C14)
    pub markers: BTreeMap<usize, usize>,
    /// make the addition after the perturbed one use the same type (two data, one type name)
    pub twin: bool,
    /// field type of the perturbed addition (menu index), instead of the one the history draws
    #[serde(default)]
    pub force_type: Option<usize>,
    /// name one addition in five of a `vtypes` type through the alias `fnv_like` (a re-export the
    /// glue declares in the generated module), the way a user names a type by override
    #[serde(default)]
    pub alias_paths: bool,
}

pub const MARKERS: [&str; 5] =
    ["vtypes::NotSendNotSync", "vtypes::SendNotSync", "vtypes::SyncNotSend", "vtypes::RawPtr", "vtypes::SendSync"];
pub const MARKER_BASE: usize = 100;

fn marker_info(idx: usize) -> TypeInfo {
    match idx {
        0 => HostTypeResolver.type_info::<vtypes::NotSendNotSync>(),
        1 => HostTypeResolver.type_info::<vtypes::SendNotSync>(),
        2 => HostTypeResolver.type_info::<vtypes::SyncNotSend>(),
        3 => HostTypeResolver.type_info::<vtypes::RawPtr>(),
        _ => HostTypeResolver.type_info::<vtypes::SendSync>(),
    }
}

/// Host resolver plus a table for dynamic lookups.
pub struct ProbeResolver {
    pub table: std::cell::RefCell<BTreeMap<String, DynamicTypeInfo>>,
}

impl TypeResolver for ProbeResolver {
    fn type_info<T>(&self) -> TypeInfo {
        HostTypeResolver.type_info::<T>()
    }
    fn dynamic_type_info(&self, type_name: &str) -> DynamicTypeInfo {
        self.table.borrow().get(type_name).cloned().unwrap_or_else(|| panic!("probe resolver: unknown type {}", type_name))
    }
}

fn close_generic<R: TypeResolver>(b: &mut NativeRecordDefinitionBuilder<R>, s: Strat) {
    use truc::record::definition::builder::native::variant;
    match s {
        Strat::Simple => b.close_record_variant_with(variant::simple),
        Strat::Basic => b.close_record_variant_with(variant::basic),
        Strat::Append => b.close_record_variant_with(variant::append_data),
        Strat::AppendReverse => b.close_record_variant_with(variant::append_data_reverse),
    };
}

pub fn build(h: &RHistory) -> Built {
    build_ext(h, &Ext::default())
}

pub fn perturbed(info: &TypeInfo, kind: PerturbKind) -> TypeInfo {
    let mut t = info.clone();
    match kind {
        PerturbKind::SizeMinus1 => t.size -= 1,
        PerturbKind::SizePlus1 => t.size += 1,
        PerturbKind::SizePlusAlign => t.size += t.align,
        PerturbKind::AlignHalf => t.align /= 2,
        PerturbKind::AlignDouble => t.align *= 2,
        PerturbKind::AlignMinus1 => t.align -= 1,
        PerturbKind::AlignPlus1 => t.align += 1,
        PerturbKind::UninitNonCopy => {}
    }
    t
}

/// Whether the perturbation is applicable to a type.
pub fn perturbation_applies(idx: usize, info: &TypeInfo, kind: PerturbKind) -> bool {
    match kind {
        PerturbKind::SizeMinus1 => info.size >= 1,
        PerturbKind::AlignHalf => info.align >= 2,
        PerturbKind::AlignMinus1 => info.align >= 4,
        PerturbKind::UninitNonCopy => idx < MARKER_BASE && !MENU[idx].copy,
        _ => true,
    }
}

/// `VERIF_GEN_LIGHT` (set for the batch interpreted by Miri): no 8 KB / 80 KB fields, at most 42 fields.
fn light() -> bool {
    static LIGHT: std::sync::OnceLock<bool> = std::sync::OnceLock::new();
    *LIGHT.get_or_init(|| std::env::var_os("VERIF_GEN_LIGHT").is_some())
}

pub fn build_ext(h: &RHistory, ext: &Ext) -> Built {
    let resolver = ProbeResolver { table: Default::default() };
    let mut b = NativeRecordDefinitionBuilder::new(&resolver);
    let mut menu = BTreeMap::new();
    let mut declared = BTreeMap::new();
    let mut pending_ids: Vec<DatumId> = vec![];
    let mut counter = 0usize;
    let mut ordinal = 0usize;
    let mut closes = 0usize;
    let mut pending = false;
    let mut perturbed_id = None;
    let mut twin_type: Option<usize> = None;
    let mut sibling_name: Option<&'static str> = None;
    // names of the data removed since the last close (a new datum may take such a name at once)
    let mut removed_names: Vec<String> = Vec::new();
    for req in &h.reqs {
        match req {
            RReq::Add { menu: m, uninit, name } => {
                if b.get_current_data().count() >= if h.profile == 2 { if light() { 42 } else { 102 } } else { MAX_FIELDS } {
                    continue;
                }
                let mut idx = match h.profile {
                    1 => LOW_ALIGN[pick(*m, LOW_ALIGN.len())],
                    4 => BIG[pick(*m, BIG.len())],
                    5 => PLAIN[pick(*m, PLAIN.len())],
                    _ => WEIGHTED[pick(*m, WEIGHTED.len())],
                };
                if light() && idx >= 48 {
                    idx = if idx == 48 { 35 } else { 33 };
                }
                if h.fragsel & 2 == 2 && !MENU[idx].serde_ok {
                    idx = 3;
                }
                if h.fragsel & 1 == 1 && !MENU[idx].clone_ok {
                    idx = 17;
                }
                if let Some(t) = twin_type.take() {
                    idx = t;
                }
                if let (Some((ord, _, _)), Some(t)) = (ext.perturb, ext.force_type) {
                    if ord == ordinal && !(h.fragsel & 2 == 2 && !MENU[t].serde_ok) && !(h.fragsel & 1 == 1 && !MENU[t].clone_ok) {
                        idx = t;
                    }
                }
                if let Some(mk) = ext.markers.get(&ordinal) {
                    idx = MARKER_BASE + mk % MARKERS.len();
                }
                let mut info = if idx >= MARKER_BASE { marker_info(idx - MARKER_BASE) } else { with_menu_type!(idx, T => HostTypeResolver.type_info::<T>()) };
                if idx == 40 || idx == 44 {
                    // The name the host resolver records for a `dyn Fn` type goes through the private module
                    // core::ops::function and does not compile; trait objects are outside the types whose
                    // recorded names the properties speak about, so the name is given as a user would, by override.
                    info.name = MENU[idx].rust.to_string();
                }
                if ext.alias_paths && ordinal % 5 == 2 && info.name.starts_with("vtypes ::") {
                    info.name = info.name.replacen("vtypes", "fnv_like", 1);
                }
                let is_copy = idx < MARKER_BASE && MENU[idx].copy;
                let pooled = name.map(|n| NAME_POOL[n as usize % NAME_POOL.len()]).filter(|n| b.get_current_datum_definition_by_name(n).is_none());
                let retake = match name {
                    Some(n) if n % 3 == 0 => removed_names.iter().find(|r| b.get_current_datum_definition_by_name(r).is_none()).cloned(),
                    _ => None,
                };
                let mut field_name = match (retake, pooled) {
                    (Some(r), _) => r,
                    (None, Some(n)) => n.to_string(),
                    (None, None) => format!("f{}", counter),
                };
                // names that differ by their case convention only come in pairs, with one type
                if let Some(partner) = sibling_name.take() {
                    if b.get_current_datum_definition_by_name(partner).is_none() {
                        field_name = partner.to_string();
                    }
                }
                if let Some(partner) = match field_name.as_str() {
                    "userId" => Some("user_id"),
                    "Flags" => Some("flags"),
                    _ => None,
                } {
                    if ext.perturb.is_none() && ext.markers.is_empty() {
                        sibling_name = Some(partner);
                        twin_type = Some(idx);
                    }
                }
                counter += 1;
                let mut rec_info = info.clone();
                let mut rec_uninit = (*uninit || h.profile == 5) && is_copy;
                // entry point of the addition: a pure function of the history
                let name_is_hosts = idx < MARKER_BASE && idx != 40 && idx != 44;
                let mut entry = match (ordinal + h.fragsel as usize + h.reqs.len()) % 7 {
                    0 | 1 if name_is_hosts && !info.name.starts_with("fnv_like") => EntryKind::Typed,
                    2 if idx < MARKER_BASE => EntryKind::NameOnly,
                    3 => EntryKind::CopyDatum,
                    4 => EntryKind::Dynamic,
                    _ => EntryKind::Override,
                };
                let mut is_perturbed = false;
                if let Some((ord, kind, e)) = ext.perturb {
                    if ord == ordinal && perturbation_applies(idx, &info, kind) {
                        entry = e;
                        is_perturbed = true;
                        if ext.twin {
                            twin_type = Some(idx);
                        }
                        if ext.apply_perturbation {
                            rec_info = perturbed(&info, kind);
                            if kind == PerturbKind::UninitNonCopy {
                                rec_uninit = true;
                            }
                        } else if kind == PerturbKind::UninitNonCopy {
                            rec_uninit = false;
                        }
                    }
                }
                let id = match entry {
                    EntryKind::Override => b.add_datum_override::<(), _>(
                        field_name,
                        DatumDefinitionOverride {
                            type_name: Some(rec_info.name.clone()),
                            size: Some(rec_info.size),
                            align: Some(rec_info.align),
                            allow_uninit: Some(rec_uninit),
                        },
                    ),
                    EntryKind::CopyDatum => b.copy_datum(&DatumDefinition::new(
                        DatumId::from(0usize),
                        field_name,
                        NativeDatumDetails::new(0, rec_info.clone(), rec_uninit),
                    )),
                    EntryKind::Typed => {
                        if rec_uninit {
                            vtypes::with_copy_menu_type!(idx, T => b.add_datum_allow_uninit::<T, _>(field_name.clone())).expect("Copy type")
                        } else {
                            with_menu_type!(idx, T => b.add_datum::<T, _>(field_name))
                        }
                    }
                    EntryKind::NameOnly => with_menu_type!(idx, T => b.add_datum_override::<T, _>(
                        field_name,
                        DatumDefinitionOverride {
                            type_name: Some(rec_info.name.clone()),
                            // only what differs from the resolver's answer is overridden
                            size: if rec_info.size != info.size { Some(rec_info.size) } else { None },
                            align: if rec_info.align != info.align { Some(rec_info.align) } else { None },
                            allow_uninit: if rec_uninit { Some(true) } else { None },
                        },
                    )),
                    EntryKind::Dynamic => {
                        let key = format!("probe{}", ordinal);
                        resolver.table.borrow_mut().insert(key.clone(), DynamicTypeInfo { info: rec_info.clone(), allow_uninit: rec_uninit });
                        b.add_dynamic_datum(field_name, key)
                    }
                }
                .expect("valid add");
                if is_perturbed {
                    perturbed_id = Some(datum_index(id));
                }
                menu.insert(datum_index(id), idx);
                pending_ids.push(id);
                declared.insert(datum_index(id), ordinal);
                ordinal += 1;
                pending = true;
            }
            RReq::Remove { sel } => {
                let cur: Vec<DatumId> = b.get_current_data().collect();
                if cur.is_empty() {
                    continue;
                }
                let victim = cur[pick(*sel, cur.len())];
                pending_ids.retain(|d| *d != victim);
                removed_names.push(b[victim].name().to_string());
                b.remove_datum(victim).expect("valid remove");
                pending = true;
            }
            RReq::RemovePending { sel } => {
                if pending_ids.is_empty() {
                    continue;
                }
                let victim = pending_ids.remove(pick(*sel, pending_ids.len()));
                removed_names.push(b[victim].name().to_string());
                b.remove_datum(victim).expect("valid remove of a pending datum");
            }
            RReq::Close { strat } => {
                if closes >= if h.profile == 3 { 10 } else { MAX_VARIANTS } {
                    continue;
                }
                removed_names.clear();
                pending_ids.clear();
                close_generic(&mut b, *strat);
                closes += 1;
                pending = false;
            }
        }
    }
    if pending || closes == 0 {
        close_generic(&mut b, h.final_strat);
    }
    Built { def: b.build(), menu, perturbed_id, additions: ordinal, declared }
}

/// A user's own fragment: emits one item per variant, nothing of the stock interface.
pub struct UserFragment;

impl FragmentGenerator for UserFragment {
    fn generate(&self, specs: &truc::generator::fragment::FragmentGeneratorSpecs, scope: &mut codegen::Scope) {
        scope.raw(&format!("pub const USER_FRAGMENT_SAW_VARIANT_{}: usize = {};", specs.record.variant.id(), specs.record.data.len()));
    }
}

/// bit 0: clone fragment, bit 1: serde fragment (both on top of the common fragments);
/// 4: `GeneratorConfig::new` with a user fragment only (no stock fragment at all).
pub fn config_for(sel: u8) -> GeneratorConfig {
    if sel & 4 == 4 {
        return GeneratorConfig::new([Box::new(UserFragment) as Box<dyn FragmentGenerator>]);
    }
    let mut custom: Vec<Box<dyn FragmentGenerator>> = vec![];
    if sel & 1 == 1 {
        custom.push(Box::new(CloneImplGenerator));
    }
    if sel & 2 == 2 {
        custom.push(Box::new(SerdeImplGenerator));
    }
    GeneratorConfig::default_with_custom_generators(custom)
}

pub struct F {
    pub id: usize,
    pub name: String,
    pub menu: usize,
    pub uninit: bool,
}

pub fn fields_of(built: &Built, variant_index: usize) -> Vec<F> {
    let v = built.def.variants().nth(variant_index).expect("variant");
    v.data_sorted()
        .map(|d| {
            let datum = &built.def[d];
            F {
                id: datum_index(d),
                name: datum.name().to_string(),
                menu: built.menu[&datum_index(d)],
                uninit: datum.details().allow_uninit(),
            }
        })
        .collect()
}

pub fn make_expr(f: &F) -> String {
    format!("{}: vtypes::FieldType::make(vdrive::ctx::seed({}))", f.name, f.id)
}

/// The dynamic adapter of one definition.
pub fn glue_for(built: &Built, index: usize, fragsel: u8, history: &RHistory) -> String {
    let n = built.def.variants().count();
    let has_clone = fragsel & 1 == 1;
    let has_serde = fragsel & 2 == 2;
    let mut s = String::new();
    let w = &mut s;
    writeln!(w, "// glue for definition #{} (generated by e2_genstage from the RecordDefinition; no offsets, no oracle)", index).unwrap();
    writeln!(w, "#[allow(unused_imports)]\npub use vtypes as fnv_like;").unwrap();
    for v in 0..n {
        let fs = fields_of(built, v);
        let last = v + 1 == n;
        // conversion helper
        if !last {
            let next = fields_of(built, v + 1);
            let added: Vec<&F> = next.iter().filter(|f| !fs.iter().any(|g| g.id == f.id)).collect();
            let removed: Vec<&F> = fs.iter().filter(|f| !next.iter().any(|g| g.id == f.id)).collect();
            let full_in = format!(
                "UnpackedRecordIn{} {{ {} }}",
                v + 1,
                added.iter().map(|f| make_expr(f)).collect::<Vec<_>>().join(", ")
            );
            let uninit_in = format!(
                "UnpackedUninitRecordIn{} {{ {} }}",
                v + 1,
                added.iter().filter(|f| !f.uninit).map(|f| make_expr(f)).collect::<Vec<_>>().join(", ")
            );
            let out_pat = format!(
                "Record{}AndUnpackedOut {{ record: r__{} }}",
                v + 1,
                removed.iter().enumerate().map(|(k, f)| format!(", {}: o_{}", f.name, k)).collect::<String>()
            );
            let outs_vec = format!(
                "vec![{}]",
                removed
                    .iter()
                    .enumerate()
                    .map(|(k, f)| format!("({}usize, Box::new(o_{}) as Box<dyn vtypes::DynField>)", f.id, k))
                    .collect::<Vec<_>>()
                    .join(", ")
            );
            writeln!(
                w,
                r#"
fn conv_{v}<const CAP: usize>(rec: CappedRecord{v}<CAP>, form: u8) -> (CappedRecord{nv}<CAP>, vdrive::ctx::Outs) {{
    match form {{
        0 => {{
            let n__: CappedRecord{nv}<CAP> = From::from((rec, {full_in}));
            (n__, Vec::new())
        }}
        1 => {{
            let n__: CappedRecord{nv}<CAP> = From::from((rec, {uninit_in}));
            (n__, Vec::new())
        }}
        2 => {{
            let out__: Record{nv}AndUnpackedOut<CAP> = From::from((rec, {full_in}));
            let {out_pat} = out__;
            let outs__: vdrive::ctx::Outs = {outs_vec};
            (r__, outs__)
        }}
        _ => {{
            let out__: Record{nv}AndUnpackedOut<CAP> = From::from((rec, {uninit_in}));
            let {out_pat} = out__;
            let outs__: vdrive::ctx::Outs = {outs_vec};
            (r__, outs__)
        }}
    }}
}}"#,
                v = v,
                nv = v + 1,
                full_in = full_in,
                uninit_in = uninit_in,
                out_pat = out_pat,
                outs_vec = outs_vec
            )
            .unwrap();
        }
        let arms = |f: &dyn Fn(&F) -> String, default: &str| -> String {
            let mut a = String::new();
            for x in &fs {
                write!(a, "            {} => {},\n", x.id, f(x)).unwrap();
            }
            write!(a, "            _ => {},", default).unwrap();
            a
        };
        let nodatum = format!("panic!(\"glue: no datum {{}} in variant {}\", datum)", v);
        let unpack_pat = format!(
            "UnpackedRecord{} {{ {} }}",
            v,
            fs.iter().enumerate().map(|(k, f)| format!("{}: f_{}", f.name, k)).collect::<Vec<_>>().join(", ")
        );
        let unpack_vec = format!(
            "vec![{}]",
            fs.iter()
                .enumerate()
                .map(|(k, f)| format!("({}usize, Box::new(f_{}) as Box<dyn vtypes::DynField>)", f.id, k))
                .collect::<Vec<_>>()
                .join(", ")
        );
        writeln!(
            w,
            r#"
impl<const CAP: usize> vdrive::RecGlue for CappedRecord{v}<CAP> {{
    fn variant(&self) -> usize {{ {v} }}
    fn get(&self, datum: usize) -> u64 {{
        match datum {{
{get_arms}
        }}
    }}
    fn toks(&self, datum: usize) -> Vec<u64> {{
        match datum {{
{tok_arms}
        }}
    }}
    fn set(&mut self, datum: usize, seed: u64) {{
        match datum {{
{set_arms}
        }}
    }}
    fn mutate(&mut self, datum: usize, seed: u64) {{
        match datum {{
{mut_arms}
        }}
    }}
    fn with_stack(&mut self, f: &mut dyn FnMut(&mut dyn vdrive::RecGlue)) {{ vdrive::via_stack(self, f) }}
    fn with_min_aligned(&mut self, f: &mut dyn FnMut(&mut dyn vdrive::RecGlue)) {{ vdrive::via_min_aligned(self, f) }}
    fn rebox(self: Box<Self>) -> Box<dyn vdrive::RecGlue> {{ let r: Self = *self; Box::new(r) }}
    fn unpack_dyn(self: Box<Self>) -> vdrive::ctx::Outs {{
        let {unpack_pat} = (*self).unpack();
        let outs__: vdrive::ctx::Outs = {unpack_vec};
        outs__
    }}
    fn convert_dyn(self: Box<Self>, form: u8) -> (Box<dyn vdrive::RecGlue>, vdrive::ctx::Outs) {{
        {convert_body}
    }}
    fn clone_dyn(&self) -> Option<Box<dyn vdrive::RecGlue>> {{ {clone_body} }}
    fn clone_from_dyn(&mut self, source: &dyn vdrive::RecGlue) -> bool {{ {clone_from_body} }}
    fn ser(&self, fmt: u8) -> Option<Result<Vec<u8>, String>> {{ {ser_body} }}
    fn field_json(&self, datum: usize) -> Option<String> {{ {field_json_body} }}
    fn json_safe(&self) -> bool {{ {json_safe_body} }}
    fn new_vec(&self) -> Box<dyn vdrive::VecGlue> {{ Box::new(VecOf{v}::<CAP>(Vec::new())) }}
    fn addr(&self) -> usize {{ self as *const Self as usize }}
    fn into_any(self: Box<Self>) -> Box<dyn std::any::Any> {{ self }}
    fn as_any(&self) -> &dyn std::any::Any {{ self }}
}}

/// A vector of records of variant {v} (newtype only because of the orphan rule).
pub struct VecOf{v}<const CAP: usize>(pub Vec<CappedRecord{v}<CAP>>);

impl<const CAP: usize> vdrive::VecGlue for VecOf{v}<CAP> {{
    fn variant(&self) -> usize {{ {v} }}
    fn len(&self) -> usize {{ self.0.len() }}
    fn push(&mut self, rec: Box<dyn vdrive::RecGlue>) {{
        let r: Box<CappedRecord{v}<CAP>> = rec.into_any().downcast().expect("glue: record type");
        self.0.push(*r);
    }}
    fn pop(&mut self) -> Option<Box<dyn vdrive::RecGlue>> {{ self.0.pop().map(|r| Box::new(r) as Box<dyn vdrive::RecGlue>) }}
    fn at(&mut self, index: usize) -> &mut dyn vdrive::RecGlue {{ &mut self.0[index] }}
    fn buffer(&self) -> (usize, usize) {{ (self.0.as_ptr() as usize, self.0.capacity()) }}
    fn convert_all(self: Box<Self>, form: u8) -> Result<Box<dyn vdrive::VecGlue>, ()> {{
        {convert_all_body}
    }}
}}"#,
            v = v,
            get_arms = arms(&|x| format!("vtypes::FieldType::digest(self.{}())", x.name), &nodatum),
            tok_arms = arms(&|x| format!("vtypes::FieldType::tok_ids(self.{}())", x.name), "Vec::new()"),
            set_arms = arms(&|x| format!("{{ *self.{}_mut() = vtypes::FieldType::make(seed); }}", x.name), &nodatum),
            mut_arms = arms(&|x| format!("vtypes::FieldType::mutate(self.{}_mut(), seed)", x.name), &nodatum),
            unpack_pat = unpack_pat,
            unpack_vec = unpack_vec,
            convert_body = if last {
                "let _ = form; panic!(\"glue: no next variant\")".to_string()
            } else {
                format!("let (r, o) = conv_{}::<CAP>(*self, form); (Box::new(r), o)", v)
            },
            clone_body = if has_clone { "Some(Box::new(Clone::clone(self)))" } else { "None" },
            clone_from_body = if has_clone {
                "match source.as_any().downcast_ref::<Self>() { Some(s) => { Clone::clone_from(self, s); true } None => false }"
            } else {
                "let _ = source; false"
            },
            ser_body = if has_serde {
                "Some(match fmt { 0 => serde_json::to_vec(self).map_err(|e| e.to_string()), 1 => serde_json::to_value(self).map(|v| v.to_string().into_bytes()).map_err(|e| e.to_string()), _ => bincode::serialize(self).map_err(|e| e.to_string()) })"
            } else {
                "let _ = fmt; None"
            },
            field_json_body = if has_serde {
                format!(
                    "match datum {{\n{}\n        }}",
                    arms(&|x| format!("serde_json::to_value(self.{}()).ok().map(|v| v.to_string())", x.name), "None")
                )
            } else {
                "let _ = datum; None".to_string()
            },
            json_safe_body = if fs.is_empty() {
                "true".to_string()
            } else {
                fs.iter().map(|x| format!("vtypes::FieldType::json_safe(self.{}())", x.name)).collect::<Vec<_>>().join(" && ")
            },
            convert_all_body = if last {
                "let _ = form; panic!(\"glue: no next variant\")".to_string()
            } else {
                format!(
                    r#"let out: Result<Vec<CappedRecord{nv}<CAP>>, ()> = truc_runtime::convert::try_convert_vec_in_place(self.0, move |rec, _prev| {{
            let (i, keep, fail) = vdrive::ctx::conv_next();
            if fail {{
                drop(rec);
                return Err(());
            }}
            if keep {{
                let (n, outs) = conv_{v}::<CAP>(rec, form);
                vdrive::ctx::conv_push_outs(i, outs);
                Ok(truc_runtime::convert::VecElementConversionResult::Converted(n))
            }} else {{
                drop(rec);
                Ok(truc_runtime::convert::VecElementConversionResult::Abandonned)
            }}
        }});
        out.map(|v| Box::new(VecOf{nv}::<CAP>(v)) as Box<dyn vdrive::VecGlue>)"#,
                    v = v,
                    nv = v + 1
                )
            },
        )
        .unwrap();
    }

    // DefGlue
    let mut new_full = String::new();
    let mut new_uninit = String::new();
    let mut de = String::new();
    let mut layouts = String::from("(\"RecordUninitialized\".to_string(), std::mem::size_of::<RecordUninitialized<CAP>>(), std::mem::align_of::<RecordUninitialized<CAP>>())");
    for v in 0..n {
        let fs = fields_of(built, v);
        writeln!(
            new_full,
            "            {v} => Box::new(CappedRecord{v}::<CAP>::new(UnpackedRecord{v} {{ {} }})),",
            fs.iter().map(make_expr).collect::<Vec<_>>().join(", "),
            v = v
        )
        .unwrap();
        writeln!(
            new_uninit,
            "            {v} => Box::new(CappedRecord{v}::<CAP>::new_uninit(UnpackedUninitRecord{v} {{ {} }})),",
            fs.iter().filter(|f| !f.uninit).map(make_expr).collect::<Vec<_>>().join(", "),
            v = v
        )
        .unwrap();
        writeln!(
            de,
            r#"            {v} => match fmt {{
                0 => serde_json::from_slice::<CappedRecord{v}<CAP>>(bytes).map(|r| Box::new(r) as Box<dyn vdrive::RecGlue>).map_err(|e| e.to_string()),
                1 => serde_json::from_slice::<serde_json::Value>(bytes).and_then(serde_json::from_value::<CappedRecord{v}<CAP>>).map(|r| Box::new(r) as Box<dyn vdrive::RecGlue>).map_err(|e| e.to_string()),
                _ => bincode::deserialize::<CappedRecord{v}<CAP>>(bytes).map(|r| Box::new(r) as Box<dyn vdrive::RecGlue>).map_err(|e| e.to_string()),
            }},"#,
            v = v
        )
        .unwrap();
        write!(
            layouts,
            ", (\"CappedRecord{v}\".to_string(), std::mem::size_of::<CappedRecord{v}<CAP>>(), std::mem::align_of::<CappedRecord{v}<CAP>>())",
            v = v
        )
        .unwrap();
    }
    let info = info_json(built, index, fragsel, history);
    writeln!(
        w,
        r#####"
pub struct Def<const CAP: usize>;

impl<const CAP: usize> vdrive::DefGlue for Def<CAP> {{
    fn info_json(&self) -> &'static str {{ INFO_JSON }}
    fn cap(&self) -> usize {{ CAP }}
    fn max_size(&self) -> usize {{ MAX_SIZE }}
    fn new_full(&self, variant: usize) -> Box<dyn vdrive::RecGlue> {{
        match variant {{
{new_full}            _ => panic!("glue: no variant {{}}", variant),
        }}
    }}
    fn new_uninit(&self, variant: usize) -> Box<dyn vdrive::RecGlue> {{
        match variant {{
{new_uninit}            _ => panic!("glue: no variant {{}}", variant),
        }}
    }}
    fn de(&self, variant: usize, fmt: u8, bytes: &[u8]) -> Option<Result<Box<dyn vdrive::RecGlue>, String>> {{
        {de_body}
    }}
    fn layouts(&self) -> Vec<(String, usize, usize)> {{
        vec![{layouts}]
    }}
}}

pub const INFO_JSON: &str = r####"{info}"####;"#####,
        new_full = new_full,
        new_uninit = new_uninit,
        de_body = if has_serde {
            format!("Some(match variant {{\n{}            _ => panic!(\"glue: no variant {{}}\", variant),\n        }})", de)
        } else {
            "let _ = (variant, fmt, bytes); None".to_string()
        },
        layouts = layouts,
        info = info,
    )
    .unwrap();
    s
}

pub fn info_json(built: &Built, index: usize, fragsel: u8, history: &RHistory) -> String {
    let variants: Vec<serde_json::Value> = (0..built.def.variants().count())
        .map(|v| {
            let var = built.def.variants().nth(v).unwrap();
            // fields in the order of their declaration (the order in which the history added them)
            let mut in_declaration_order: Vec<DatumId> = var.data().collect();
            in_declaration_order.sort_by_key(|d| built.declared[&datum_index(*d)]);
            let fields: Vec<serde_json::Value> = in_declaration_order
                .into_iter()
                .map(|d| {
                    let datum = &built.def[d];
                    serde_json::json!({
                        "id": datum_index(d),
                        "name": datum.name(),
                        "menu": built.menu[&datum_index(d)],
                        "uninit": datum.details().allow_uninit(),
                        "offset": datum.details().offset(),
                        "size": datum.details().size(),
                        "align": datum.details().type_align(),
                    })
                })
                .collect();
            serde_json::json!({ "fields": fields })
        })
        .collect();
    serde_json::json!({
        "index": index,
        "fragsel": fragsel,
        "max_size": built.def.max_size(),
        "max_align": built.def.max_type_align(),
        "variants": variants,
        "history": serde_json::to_value(history).unwrap(),
    })
    .to_string()
}

pub fn write_if_changed(path: &Path, content: &str) {
    if fs::read_to_string(path).map_or(true, |old| old != content) {
        fs::write(path, content).expect("write generated file");
    }
}

pub fn emit(out: &Path, histories: &[(usize, RHistory)], exclude: &[usize]) {
    fs::create_dir_all(out).expect("out dir");
    let mut all = String::from("// generated by e2_genstage\n");
    let mut registry = String::new();
    let mut summary = vec![];
    for (k, h) in histories {
        write_if_changed(&out.join(format!("hist_{}.json", k)), &serde_json::to_string(h).unwrap());
        // a panic of the build-time library on one definition (C12 / C13 report those) must not
        // prevent the other definitions from being examined
        let generated = std::panic::catch_unwind(std::panic::AssertUnwindSafe(|| {
            let built = build_ext(h, &Ext { alias_paths: true, ..Ext::default() });
            let code = generate(&built.def, &config_for(h.fragsel));
            let glue = glue_for(&built, *k, h.fragsel, h);
            (code, glue, built.def.variants().count())
        }));
        let (code, glue, n_variants) = match generated {
            Ok(x) => x,
            Err(e) => {
                summary.push(serde_json::json!({"index": k, "fragsel": h.fragsel, "panicked": vcore::panic_message(e), "excluded": true}));
                continue;
            }
        };
        write_if_changed(&out.join(format!("def_{}.rs", k)), &code);
        write_if_changed(&out.join(format!("glue_{}.rs", k)), &glue);
        summary.push(serde_json::json!({"index": k, "fragsel": h.fragsel, "variants": n_variants, "excluded": exclude.contains(k)}));
        if exclude.contains(k) {
            continue;
        }
        writeln!(
            all,
            "pub mod def_{k} {{\n    #![allow(dead_code, unused_imports, unused_variables, unused_mut, clippy::all)]\n    include!(\"def_{k}.rs\");\n    include!(\"glue_{k}.rs\");\n}}",
            k = k
        )
        .unwrap();
        writeln!(
            registry,
            "        (&def_{k}::Def::<{{ def_{k}::MAX_SIZE }}>, &def_{k}::Def::<{{ def_{k}::MAX_SIZE + 5 }}>),",
            k = k
        )
        .unwrap();
    }
    writeln!(
        all,
        "pub fn all_defs() -> Vec<(&'static dyn vdrive::DefGlue, &'static dyn vdrive::DefGlue)> {{\n    vec![\n{}    ]\n}}",
        registry
    )
    .unwrap();
    write_if_changed(&out.join("all.rs"), &all);
    write_if_changed(&out.join("summary.json"), &serde_json::Value::Array(summary).to_string());
    // remove stale files of a previous, larger batch
    if let Ok(rd) = fs::read_dir(out) {
        for e in rd.flatten() {
            let name = e.file_name().to_string_lossy().to_string();
            for prefix in ["def_", "glue_", "hist_"] {
                if let Some(rest) = name.strip_prefix(prefix) {
                    if let Some(num) = rest.split('.').next().and_then(|n| n.parse::<usize>().ok()) {
                        if !histories.iter().any(|(k, _)| *k == num) {
                            let _ = fs::remove_file(e.path());
                        }
                    }
                }
            }
        }
    }
}

