//! usage: e2_genstage gen <count> <out dir> [exclude k,k,...]
//!        e2_genstage single <case.json> <out dir>       (one definition from a replay file)

use std::{fs, path::Path, process::ExitCode};

use e2_genstage::*;
use proptest::{
    strategy::{Strategy, ValueTree},
    test_runner::{Config, RngSeed, TestRunner},
};
use vcore::{env_seed, mix_seed};

fn main() -> ExitCode {
    let args: Vec<String> = std::env::args().collect();
    vcore::silence_panics();
    if args.len() >= 4 && args[1] == "gen" {
        let count: usize = args[2].parse().expect("count");
        let out = Path::new(&args[3]);
        let exclude: Vec<usize> = args.get(4).map(|s| s.split(',').filter_map(|x| x.parse().ok()).collect()).unwrap_or_default();
        let mut runner = TestRunner::new(Config {
            rng_seed: RngSeed::Fixed(mix_seed(env_seed(), 0xE2)),
            failure_persistence: None,
            ..Config::default()
        });
        let strategy = rhistory();
        let mut histories: Vec<(usize, RHistory)> =
            (0..count).map(|k| (k, strategy.new_tree(&mut runner).expect("tree").current())).collect();
        for (k, h) in histories.iter_mut() {
            let forced = match *k % 16 {
                1 | 9 => Some(vcore::Strat::Basic),
                6 => Some(vcore::Strat::Append),
                14 => Some(vcore::Strat::AppendReverse),
                _ => None,
            };
            if let Some(strat) = forced {
                *h = e2_genstage::single_strategy(h.clone(), strat);
            }
        }
        if count >= 24 && std::env::var_os("VERIF_GEN_LIGHT").is_none() {
            let k = count / 2;
            let h = histories[k].1.clone();
            histories[k].1 = e2_genstage::very_wide(h, 66 + (env_seed() as usize * 7 + count) % 35);
        }
        let result = std::panic::catch_unwind(|| emit(out, &histories, &exclude));
        return match result {
            Ok(()) => ExitCode::SUCCESS,
            Err(e) => {
                eprintln!("generation panicked: {}", vcore::panic_message(e));
                ExitCode::from(3)
            }
        };
    }
    if args.len() == 4 && args[1] == "single" {
        let text = fs::read_to_string(&args[2]).expect("read case");
        let v: serde_json::Value = serde_json::from_str(&text).expect("json");
        let case = v.get("case").cloned().unwrap_or(v);
        let h: RHistory = serde_json::from_value(case.get("history").cloned().unwrap_or(case)).expect("history");
        emit(Path::new(&args[3]), &[(0, h)], &[]);
        return ExitCode::SUCCESS;
    }
    if args.len() == 5 && args[1] == "cases" {
        // pre-generated operation sequences (definition independent) for the Miri tier
        let prop: &'static str = match args[2].as_str() {
            "C04" => "C04",
            "C05" => "C05",
            "C06" => "C06",
            "C15" => "C15",
            "C16" => "C16",
            _ => "C07",
        };
        let n: usize = args[3].parse().expect("n");
        let mut runner = TestRunner::new(Config {
            rng_seed: RngSeed::Fixed(mix_seed(env_seed(), 0x3141)),
            failure_persistence: None,
            ..Config::default()
        });
        let strategy = vdrive::case_strategy(prop);
        let mut cases: Vec<vdrive::Case> = (0..n).map(|_| strategy.new_tree(&mut runner).expect("tree").current()).collect();
        // serde_json's error path uses memchr's aligned SIMD loads, which Miri's symbolic alignment
        // check reports although they are fine: serde operations are left to the native tiers
        for c in cases.iter_mut() {
            c.ops.retain(|op| !matches!(op, vdrive::Op::Ser { .. } | vdrive::Op::DeBad { .. }));
        }
        fs::write(&args[4], serde_json::to_string(&cases).unwrap()).expect("write cases");
        return ExitCode::SUCCESS;
    }
    eprintln!("usage: e2_genstage gen <count> <out dir> [exclude] | single <case.json> <out dir>");
    ExitCode::from(2)
}
