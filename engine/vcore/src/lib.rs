//! Shared pieces of the verification engines: builder-history grammar and strategies, a replayable
//! interpreter of histories against truc's native builder, and the seeded parallel proptest
//! runner with evidence collection.

pub mod hist;
pub mod runner;

pub use hist::*;
pub use runner::*;
