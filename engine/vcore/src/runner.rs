//! Seeded, parallel proptest runner with evidence collection.
//!
//! Every random choice is made by proptest strategies driven by a `TestRunner` whose seed is a
//! pure function of `VERIF_SEED` and the worker index. Case budgets are counts.

use std::{
    cell::{Cell, RefCell},
    collections::{hash_map::DefaultHasher, BTreeMap, HashSet},
    fmt::Debug,
    hash::{Hash, Hasher},
    sync::atomic::{AtomicBool, Ordering},
};

use proptest::{
    strategy::Strategy,
    test_runner::{Config, RngSeed, TestCaseError, TestError, TestRunner},
};
use serde::Serialize;
use serde_json::{json, Value};

/// What a check reports about one generated case that passed.
#[derive(Default, Debug)]
pub struct CaseInfo {
    pub nontrivial: bool,
    pub labels: Vec<&'static str>,
    pub counters: Vec<(&'static str, u64)>,
}

#[derive(Debug, Clone)]
pub struct Failure {
    /// Stable identification of the kind of violation (used to match known findings).
    pub signature: String,
    pub message: String,
}

impl Failure {
    pub fn new(signature: impl Into<String>, message: impl Into<String>) -> Self {
        Failure {
            signature: signature.into(),
            message: message.into(),
        }
    }
}

#[derive(Debug, Default)]
pub struct Outcome {
    pub evaluations: u64,
    pub nontrivial: u64,
    pub distinct_nontrivial: u64,
    pub classes: BTreeMap<String, u64>,
    pub counters: BTreeMap<String, u64>,
    pub samples: Vec<Value>,
    /// (shrunk case, failure)
    pub failures: Vec<(Value, Failure)>,
}

impl Outcome {
    pub fn merge(&mut self, other: Outcome) {
        self.evaluations += other.evaluations;
        self.nontrivial += other.nontrivial;
        self.distinct_nontrivial += other.distinct_nontrivial;
        for (k, v) in other.classes {
            *self.classes.entry(k).or_default() += v;
        }
        for (k, v) in other.counters {
            *self.counters.entry(k).or_default() += v;
        }
        for s in other.samples {
            if self.samples.len() < 6 {
                self.samples.push(s);
            }
        }
        self.failures.extend(other.failures);
    }

    pub fn to_json(&self, property: &str, rule: &str) -> Value {
        json!({
            "property": property,
            "evaluations": self.evaluations,
            "nontrivial": self.nontrivial,
            "distinct_nontrivial": self.distinct_nontrivial,
            "rule": rule,
            "classes": self.classes,
            "counters": self.counters,
            "samples": self.samples,
            "failures": self.failures.iter().map(|(case, f)| json!({
                "signature": f.signature,
                "message": f.message,
                "case": case,
            })).collect::<Vec<_>>(),
        })
    }
}

pub fn hash_of<T: Hash>(t: &T) -> u64 {
    let mut h = DefaultHasher::new();
    t.hash(&mut h);
    h.finish()
}

pub fn mix_seed(seed: u64, worker: u64) -> u64 {
    // splitmix64 of (seed, worker)
    let mut z = seed
        .wrapping_add(0x9E3779B97F4A7C15u64.wrapping_mul(worker + 1))
        .wrapping_add(0x632BE59BD9B4E019);
    z = (z ^ (z >> 30)).wrapping_mul(0xBF58476D1CE4E5B9);
    z = (z ^ (z >> 27)).wrapping_mul(0x94D049BB133111EB);
    z ^ (z >> 31)
}

pub fn env_seed() -> u64 {
    std::env::var("VERIF_SEED")
        .ok()
        .and_then(|s| s.trim().parse::<u64>().ok())
        .unwrap_or(1)
}

pub fn env_threads() -> usize {
    std::env::var("VERIF_THREADS")
        .ok()
        .and_then(|s| s.parse().ok())
        .unwrap_or_else(|| {
            std::thread::available_parallelism()
                .map(|n| n.get())
                .unwrap_or(4)
                .min(16)
        })
}

/// Runs `cases` generated cases (split over the workers) of `strategy` through `check`.
///
/// `check` returns `Ok(info)` when the property held on the case, `Err(failure)` otherwise; a
/// failing case is shrunk by proptest and reported once per worker that found one.
pub fn run_prop<C, S, F>(
    seed: u64,
    cases: u64,
    threads: usize,
    strategy: impl Fn() -> S + Sync,
    check: F,
) -> Outcome
where
    C: Debug + Clone + Serialize + Hash,
    S: Strategy<Value = C>,
    F: Fn(&C) -> Result<CaseInfo, Failure> + Sync,
{
    let threads = threads.max(1).min(cases.max(1) as usize);
    let stop = AtomicBool::new(false);
    let mut total = Outcome::default();
    let outcomes: Vec<(Outcome, HashSet<u64>)> = std::thread::scope(|scope| {
        let handles: Vec<_> = (0..threads)
            .map(|w| {
                let strategy = &strategy;
                let check = &check;
                let stop = &stop;
                std::thread::Builder::new()
                    .stack_size(64 << 20)
                    .spawn_scoped(scope, move || {
                        let per = cases / threads as u64
                            + if (w as u64) < cases % threads as u64 { 1 } else { 0 };
                        run_worker(mix_seed(seed, w as u64), per, strategy(), check, stop)
                    })
                    .expect("spawn worker")
            })
            .collect();
        handles
            .into_iter()
            .map(|h| h.join().expect("worker thread"))
            .collect()
    });
    let mut distinct = HashSet::new();
    for (o, d) in outcomes {
        total.merge(o);
        distinct.extend(d);
    }
    total.distinct_nontrivial = distinct.len() as u64;
    total
}

fn run_worker<C, S, F>(
    seed: u64,
    cases: u64,
    strategy: S,
    check: &F,
    stop: &AtomicBool,
) -> (Outcome, HashSet<u64>)
where
    C: Debug + Clone + Serialize + Hash,
    S: Strategy<Value = C>,
    F: Fn(&C) -> Result<CaseInfo, Failure>,
{
    let outcome = RefCell::new(Outcome::default());
    let distinct = RefCell::new(HashSet::new());
    let failed = Cell::new(false);
    let last_failure: RefCell<Option<Failure>> = RefCell::new(None);
    if cases == 0 {
        return (outcome.into_inner(), distinct.into_inner());
    }
    let mut runner = TestRunner::new(Config {
        cases: cases.min(u32::MAX as u64) as u32,
        rng_seed: RngSeed::Fixed(seed),
        failure_persistence: None,
        max_shrink_iters: 20_000,
        max_global_rejects: 1 << 20,
        ..Config::default()
    });
    let result = runner.run(&strategy, |case| {
        if stop.load(Ordering::Relaxed) && !failed.get() {
            return Ok(());
        }
        side_note(&case);
        match check(&case) {
            Ok(info) => {
                if !failed.get() {
                    let mut o = outcome.borrow_mut();
                    o.evaluations += 1;
                    for l in &info.labels {
                        *o.classes.entry((*l).to_string()).or_default() += 1;
                    }
                    for (k, v) in &info.counters {
                        *o.counters.entry((*k).to_string()).or_default() += v;
                    }
                    if info.nontrivial {
                        o.nontrivial += 1;
                        let fresh = distinct.borrow_mut().insert(hash_of(&case));
                        if fresh && o.samples.len() < 3 {
                            o.samples.push(serde_json::to_value(&case).unwrap_or(Value::Null));
                        }
                    }
                }
                Ok(())
            }
            Err(f) => {
                if !failed.get() {
                    outcome.borrow_mut().evaluations += 1;
                }
                failed.set(true);
                stop.store(true, Ordering::Relaxed);
                let msg = f.message.clone();
                *last_failure.borrow_mut() = Some(f);
                Err(TestCaseError::fail(msg))
            }
        }
    });
    let mut outcome = outcome.into_inner();
    match result {
        Ok(()) => {}
        Err(TestError::Fail(_, minimal)) => {
            // Re-evaluate the minimal case to get its own failure record.
            // (a panic escaping the check itself, here or above, is not a verdict on the property)
            let f = match std::panic::catch_unwind(std::panic::AssertUnwindSafe(|| check(&minimal))) {
                Err(e) => Failure::new(
                    "harness-abort",
                    format!("the check itself panicked on the case: {}", crate::hist::panic_message(e)),
                ),
                Ok(Err(f)) => f,
                Ok(Ok(_)) => last_failure
                    .borrow_mut()
                    .take()
                    .unwrap_or_else(|| Failure::new("unknown", "failure did not reproduce")),
            };
            outcome
                .failures
                .push((serde_json::to_value(&minimal).unwrap_or(Value::Null), f));
        }
        Err(TestError::Abort(reason)) => {
            outcome.failures.push((
                Value::Null,
                Failure::new("harness-abort", format!("proptest aborted: {}", reason)),
            ));
        }
    }
    (outcome, distinct.into_inner())
}

/// When `VERIF_SIDEFILE` is set, the case about to be executed is written there first, so that
/// the driver can name the case on which the process died (possible only when the tree has
/// undefined behaviour: double free, wild store...).
pub fn side_note<C: Serialize>(case: &C) {
    static PATH: std::sync::OnceLock<Option<String>> = std::sync::OnceLock::new();
    static NEXT: std::sync::atomic::AtomicUsize = std::sync::atomic::AtomicUsize::new(0);
    thread_local! {
        static WORKER: usize = NEXT.fetch_add(1, std::sync::atomic::Ordering::Relaxed);
    }
    let path = PATH.get_or_init(|| std::env::var("VERIF_SIDEFILE").ok().filter(|s| !s.is_empty()));
    if let Some(path) = path {
        if let Ok(bytes) = serde_json::to_vec(case) {
            let w = WORKER.with(|w| *w);
            let _ = std::fs::write(format!("{}.{}", path, w), bytes);
        }
    }
}

/// Installs a panic hook that prints nothing (checks catch panics and report them themselves).
pub fn silence_panics() {
    if std::env::var_os("VERIF_PANIC_TRACE").is_some() {
        std::panic::set_hook(Box::new(|info| eprintln!("PANIC-TRACE: {}", info)));
    } else {
        std::panic::set_hook(Box::new(|_| {}));
    }
}
