//! Builder histories: grammar, proptest strategies, interpreter against truc's native builder.

use std::panic::{catch_unwind, AssertUnwindSafe};

use proptest::prelude::*;
use serde::{Deserialize, Serialize};
use truc::record::{
    definition::{
        builder::native::{variant, DatumDefinitionOverride, NativeRecordDefinitionBuilder},
        DatumId, NativeDatumDetails, RecordDefinition, RecordVariantId,
    },
    type_resolver::HostTypeResolver,
};

#[derive(Clone, Copy, Debug, Serialize, Deserialize, PartialEq, Eq, Hash, PartialOrd, Ord)]
pub enum Strat {
    Simple,
    Basic,
    Append,
    AppendReverse,
}

impl Strat {
    pub const ALL: [Strat; 4] = [Strat::Simple, Strat::Basic, Strat::Append, Strat::AppendReverse];
}

#[derive(Clone, Debug, Serialize, Deserialize, PartialEq, Eq, Hash)]
pub enum Req {
    /// Add a datum; `name`: index into a small pool of names (reused when the name is free in the
    /// current variant, e.g. after its previous holder was removed), `None` or a taken name: fresh.
    Add { size: usize, align: usize, uninit: bool, name: Option<u8>, #[serde(default)] alt_spelling: bool },
    /// Remove one of the current data (carried over or pending), chosen by monotone index.
    Remove { sel: u16 },
    /// Remove up to `count` of the current data in one step, starting at the selected one and
    /// walking the current list backwards (so not in increasing id order).
    RemoveBurst { sel: u16, count: u8 },
    /// Remove every second datum of the current list (leaves many holes at once).
    RemoveEveryOther { phase: bool },
    /// Close the variant.
    Close { strat: Strat },
}

/// A valid history: every request is accepted by the builder; it ends with an implicit close
/// (with `final_strat`) and `build()`.
#[derive(Clone, Debug, Serialize, Deserialize, PartialEq, Eq, Hash)]
pub struct History {
    pub reqs: Vec<Req>,
    pub final_strat: Strat,
}

pub const NAME_POOL: [&str; 6] = ["alpha", "beta", "gamma", "delta", "eps", "zeta"];

pub fn pick(sel: u16, len: usize) -> usize {
    (sel as usize * len) >> 16
}

/// Smallest selector that `pick` maps to `k` (for enumerations expressed with selectors).
pub fn unpick(k: usize, len: usize) -> u16 {
    let mut sel = ((k << 16) / len.max(1)) as u32;
    while pick(sel.min(65535) as u16, len) < k && sel < 65535 {
        sel += 1;
    }
    sel.min(65535) as u16
}

pub fn type_name_of(size: usize, align: usize) -> String {
    format!("vt::S{}A{}", size, align)
}

/// The same type spelled with different spacing (type names are free text for the builder).
pub fn type_name_spelled(size: usize, align: usize, alt: bool) -> String {
    if alt {
        format!("vt :: S{}A{}", size, align)
    } else {
        type_name_of(size, align)
    }
}

#[derive(Clone, Debug, Serialize, Deserialize, PartialEq, Eq)]
pub struct DatumObs {
    pub id: usize,
    pub name: String,
    pub offset: usize,
    pub size: usize,
    pub align: usize,
    pub uninit: bool,
}

#[derive(Clone, Debug, Serialize, Deserialize)]
pub struct CloseObs {
    pub variant: usize,
    /// Whether the close created a new variant (false: nothing was pending).
    pub created: bool,
    pub strat: Strat,
    /// Data of the closed variant in the builder's list order.
    pub list: Vec<DatumObs>,
    /// Offsets of all datum ids issued so far (`usize::MAX`: never placed).
    pub all_offsets: Vec<usize>,
    /// Ids requested to be added / removed since the previous close.
    pub added: Vec<usize>,
    pub removed: Vec<usize>,
}

#[derive(Clone, Debug, Default, Serialize, Deserialize)]
pub struct Trace {
    pub closes: Vec<CloseObs>,
    pub panicked: Option<String>,
    /// Number of data added and removed again before their variant was closed.
    pub removed_while_pending: usize,
    pub n_ids: usize,
    /// Number of data named from the pool (names can then be reused by later data).
    pub pooled_names: usize,
}

pub fn panic_message(e: Box<dyn std::any::Any + Send>) -> String {
    if let Some(s) = e.downcast_ref::<&str>() {
        s.to_string()
    } else if let Some(s) = e.downcast_ref::<String>() {
        s.clone()
    } else {
        "<non-string panic payload>".to_string()
    }
}

thread_local! {
    /// When set, every close of this thread goes through the user-written strategy [slot_reuse].
    pub static USER_STRATEGY: std::cell::Cell<bool> = std::cell::Cell::new(false);
}

/// Runs `f` with every close going through the user-written strategy [slot_reuse].
pub fn with_user_strategy<R>(f: impl FnOnce() -> R) -> R {
    struct Reset;
    impl Drop for Reset {
        fn drop(&mut self) {
            USER_STRATEGY.with(|u| u.set(false));
        }
    }
    let _reset = Reset;
    USER_STRATEGY.with(|u| u.set(true));
    f()
}

/// A variant-closing strategy as a user of the library may write one (trait `RecordVariantBuilder`):
/// an added datum takes the place of the first removed datum, in the order the removals were
/// requested, that has its size and a suitably aligned offset; the others are appended. The list
/// stays in address order. Its result depends on the order of `data_to_add` and `data_to_remove`.
pub fn slot_reuse(
    mut data: Vec<truc::record::definition::DatumId>,
    data_to_add: Vec<truc::record::definition::DatumId>,
    data_to_remove: Vec<truc::record::definition::DatumId>,
    defs: &mut truc::record::definition::DatumDefinitionCollection<truc::record::definition::NativeDatumDetails>,
) -> Vec<truc::record::definition::DatumId> {
    use truc::record::definition::{builder::native::variant::NativeDataUpdater, NativeDatumDetails};
    let mut free: Vec<truc::record::definition::DatumId> = data_to_remove.clone();
    let mut appended = vec![];
    for add in data_to_add {
        let (size, align) = {
            let d = defs.get(add).expect("datum to add").details();
            (d.size(), d.type_align())
        };
        let slot = free.iter().position(|r| {
            let d = defs.get(*r).expect("datum to remove").details();
            size > 0 && d.size() == size && d.offset() % align == 0
        });
        match slot {
            Some(k) => {
                let r = free.remove(k);
                let offset = defs.get(r).expect("datum to remove").details().offset();
                let new = {
                    let d = defs.get(add).expect("datum to add").details();
                    NativeDatumDetails::new(offset, d.type_info().clone(), d.allow_uninit())
                };
                *defs.get_mut(add).expect("datum to add").details_mut() = new;
                let pos = data.iter().position(|d| *d == r).expect("removed datum is in the variant");
                data[pos] = add;
            }
            None => appended.push(add),
        }
    }
    data.remove_data(free.iter().cloned());
    for add in appended {
        data.push_datum(defs, add);
    }
    data
}

pub fn close_with<R: truc::record::type_resolver::TypeResolver>(
    b: &mut NativeRecordDefinitionBuilder<R>,
    strat: Strat,
) -> RecordVariantId {
    if USER_STRATEGY.with(|u| u.get()) {
        return b.close_record_variant_with(slot_reuse);
    }
    match strat {
        Strat::Simple => b.close_record_variant_with(variant::simple),
        Strat::Basic => b.close_record_variant_with(variant::basic),
        Strat::Append => b.close_record_variant_with(variant::append_data),
        Strat::AppendReverse => b.close_record_variant_with(variant::append_data_reverse),
    }
}

fn variant_index(id: RecordVariantId) -> usize {
    id.to_string().parse().expect("variant id prints as a number")
}

pub fn datum_index(id: DatumId) -> usize {
    id.to_string().parse().expect("datum id prints as a number")
}

static HOST: HostTypeResolver = HostTypeResolver;

/// Runs a valid history against the native builder, observing after every close.
pub fn run_native(h: &History) -> (Trace, Option<RecordDefinition<NativeDatumDetails>>) {
    let mut trace = Trace::default();
    let mut b = NativeRecordDefinitionBuilder::new(&HOST);
    let mut n_variants = 0usize;
    let mut pending_added: Vec<usize> = Vec::new();
    let mut pending_removed: Vec<usize> = Vec::new();
    let mut counter = 0usize;

    macro_rules! guarded {
        ($e:expr) => {
            match catch_unwind(AssertUnwindSafe(|| $e)) {
                Ok(v) => v,
                Err(e) => {
                    trace.panicked = Some(panic_message(e));
                    return (trace, None);
                }
            }
        };
    }

    let do_close = |b: &mut NativeRecordDefinitionBuilder<&HostTypeResolver>,
                        trace: &mut Trace,
                        strat: Strat,
                        n_variants: &mut usize,
                        pending_added: &mut Vec<usize>,
                        pending_removed: &mut Vec<usize>,
                        n_ids: usize|
     -> Result<(), String> {
        let vid = catch_unwind(AssertUnwindSafe(|| close_with(b, strat))).map_err(panic_message)?;
        let v = variant_index(vid);
        let created = v == *n_variants;
        if created {
            *n_variants += 1;
        }
        let obs = catch_unwind(AssertUnwindSafe(|| {
            let list = b[vid]
                .data()
                .map(|d| {
                    let datum = &b[d];
                    DatumObs {
                        id: datum_index(d),
                        name: datum.name().to_string(),
                        offset: datum.details().offset(),
                        size: datum.details().size(),
                        align: datum.details().type_align(),
                        uninit: datum.details().allow_uninit(),
                    }
                })
                .collect::<Vec<_>>();
            let all_offsets = (0..n_ids)
                .map(|k| b[DatumId::from(k)].details().offset())
                .collect::<Vec<_>>();
            (list, all_offsets)
        }))
        .map_err(panic_message)?;
        trace.closes.push(CloseObs {
            variant: v,
            created,
            strat,
            list: obs.0,
            all_offsets: obs.1,
            added: std::mem::take(pending_added),
            removed: std::mem::take(pending_removed),
        });
        Ok(())
    };

    for req in &h.reqs {
        match req {
            Req::Add { size, align, uninit, name, alt_spelling } => {
                let pooled = name.map(|n| NAME_POOL[n as usize % NAME_POOL.len()]).filter(|n| {
                    catch_unwind(AssertUnwindSafe(|| b.get_current_datum_definition_by_name(n).is_none()))
                        .unwrap_or(false)
                });
                let name = match pooled {
                    Some(n) => {
                        trace.pooled_names += 1;
                        n.to_string()
                    }
                    None => format!("f{}", counter),
                };
                counter += 1;
                let id = guarded!(b.add_datum_override::<(), _>(
                    name,
                    DatumDefinitionOverride {
                        type_name: Some(type_name_spelled(*size, *align, *alt_spelling)),
                        size: Some(*size),
                        align: Some(*align),
                        allow_uninit: Some(*uninit),
                    },
                ));
                match id {
                    Ok(id) => {
                        pending_added.push(datum_index(id));
                        trace.n_ids = trace.n_ids.max(datum_index(id) + 1);
                    }
                    Err(e) => {
                        trace.panicked = Some(format!("valid add rejected: {}", e));
                        return (trace, None);
                    }
                }
            }
            Req::Remove { sel } => {
                let current = guarded!(b.get_current_data().collect::<Vec<_>>());
                if current.is_empty() {
                    continue;
                }
                let id = current[pick(*sel, current.len())];
                let k = datum_index(id);
                match guarded!(b.remove_datum(id)) {
                    Ok(()) => {
                        if let Some(pos) = pending_added.iter().position(|&x| x == k) {
                            pending_added.remove(pos);
                            trace.removed_while_pending += 1;
                        } else {
                            pending_removed.push(k);
                        }
                    }
                    Err(e) => {
                        trace.panicked = Some(format!("valid remove rejected: {}", e));
                        return (trace, None);
                    }
                }
            }
            Req::RemoveBurst { sel, count } => {
                let current = guarded!(b.get_current_data().collect::<Vec<_>>());
                if current.is_empty() {
                    continue;
                }
                let start = pick(*sel, current.len());
                for step in 0..(*count as usize).min(current.len()) {
                    let id = current[(start + current.len() - step) % current.len()];
                    let k = datum_index(id);
                    match guarded!(b.remove_datum(id)) {
                        Ok(()) => {
                            if let Some(pos) = pending_added.iter().position(|&x| x == k) {
                                pending_added.remove(pos);
                                trace.removed_while_pending += 1;
                            } else {
                                pending_removed.push(k);
                            }
                        }
                        Err(e) => {
                            trace.panicked = Some(format!("valid remove rejected: {}", e));
                            return (trace, None);
                        }
                    }
                }
            }
            Req::RemoveEveryOther { phase } => {
                let current = guarded!(b.get_current_data().collect::<Vec<_>>());
                for (i, id) in current.iter().enumerate() {
                    if (i % 2 == 0) != *phase {
                        continue;
                    }
                    let k = datum_index(*id);
                    match guarded!(b.remove_datum(*id)) {
                        Ok(()) => {
                            if let Some(pos) = pending_added.iter().position(|&x| x == k) {
                                pending_added.remove(pos);
                                trace.removed_while_pending += 1;
                            } else {
                                pending_removed.push(k);
                            }
                        }
                        Err(e) => {
                            trace.panicked = Some(format!("valid remove rejected: {}", e));
                            return (trace, None);
                        }
                    }
                }
            }
            Req::Close { strat } => {
                let n_ids = trace.n_ids;
                if let Err(e) = do_close(
                    &mut b,
                    &mut trace,
                    *strat,
                    &mut n_variants,
                    &mut pending_added,
                    &mut pending_removed,
                    n_ids,
                ) {
                    trace.panicked = Some(e);
                    return (trace, None);
                }
            }
        }
    }
    if n_variants == 0 || !pending_added.is_empty() || !pending_removed.is_empty() {
        let n_ids = trace.n_ids;
        if let Err(e) = do_close(
            &mut b,
            &mut trace,
            h.final_strat,
            &mut n_variants,
            &mut pending_added,
            &mut pending_removed,
            n_ids,
        ) {
            trace.panicked = Some(e);
            return (trace, None);
        }
    }
    let def = guarded!(b.build());
    (trace, Some(def))
}

/// Observes the variants of a built definition the same way closes are observed.
pub fn observe_definition(def: &RecordDefinition<NativeDatumDetails>) -> Vec<Vec<DatumObs>> {
    def.variants()
        .map(|v| {
            v.data()
                .map(|d| {
                    let datum = &def[d];
                    DatumObs {
                        id: datum_index(d),
                        name: datum.name().to_string(),
                        offset: datum.details().offset(),
                        size: datum.details().size(),
                        align: datum.details().type_align(),
                        uninit: datum.details().allow_uninit(),
                    }
                })
                .collect()
        })
        .collect()
}

// ---------------------------------------------------------------------------------------------
// Strategies

pub fn strat_strategy() -> impl Strategy<Value = Strat> {
    prop_oneof![
        4 => Just(Strat::Simple),
        3 => Just(Strat::Basic),
        2 => Just(Strat::Append),
        2 => Just(Strat::AppendReverse),
    ]
}

/// (size, align): power-of-two alignment 1..16, size a multiple of the alignment (what Rust
/// types look like), zero included.
pub fn shape_strategy() -> impl Strategy<Value = (usize, usize)> {
    let regular = (prop_oneof![48 => 0usize..5, 4 => 5usize..8, 2 => 8usize..13, 1 => 13usize..17], prop_oneof![
        30 => 0usize..=6,
        5 => 7usize..=12,
        3 => 13usize..=40,
        1 => 41usize..=600,
        1 => 601usize..=70_000,
        5 => Just(0usize),
    ])
        .prop_map(|(a, k)| {
            let align = 1usize << a;
            // buffers of up to 70 000 elements for small alignments only
            let k = if a > 3 && k > 600 { k % 601 } else { k };
            (k * align, align)
        });
    // One shape in ten has a size that is not a multiple of its alignment: no Rust type is like
    // that, but the builder accepts any (size, alignment) given by override or by a type table.
    (regular, 0u8..10, any::<u16>()).prop_map(|((size, align), odd, r)| {
        if odd == 0 && align >= 2 {
            (size.saturating_sub(align) + 1 + pick(r, align - 1), align)
        } else {
            (size, align)
        }
    })
}

pub fn req_strategy(strats: BoxedStrategy<Strat>) -> impl Strategy<Value = Req> {
    prop_oneof![
        20 => (shape_strategy(), prop::bool::weighted(0.3), prop::option::weighted(0.4, 0u8..6), prop::bool::weighted(0.25))
            .prop_map(|((size, align), uninit, name, alt_spelling)| Req::Add { size, align, uninit, name, alt_spelling }),
        8 => any::<u16>().prop_map(|sel| Req::Remove { sel }),
        1 => (any::<u16>(), 2u8..60).prop_map(|(sel, count)| Req::RemoveBurst { sel, count }),
        8 => strats.prop_map(|strat| Req::Close { strat }),
    ]
}

/// Valid histories; per-variant strategy mixture in 70 % of the cases, a single strategy otherwise.
pub fn history_strategy(max_len: usize) -> BoxedStrategy<History> {
    let mixed = (
        prop::collection::vec(req_strategy(strat_strategy().boxed()), 0..max_len),
        strat_strategy(),
    )
        .prop_map(|(reqs, final_strat)| History { reqs, final_strat });
    let mono = strat_strategy().prop_flat_map(move |s| {
        prop::collection::vec(req_strategy(Just(s).boxed()), 0..max_len)
            .prop_map(move |reqs| History { reqs, final_strat: s })
    });
    // long histories (many variants, many data): 1 case in 12
    let long = (
        prop::collection::vec(req_strategy(strat_strategy().boxed()), max_len..4 * max_len),
        strat_strategy(),
    )
        .prop_map(|(reqs, final_strat)| History { reqs, final_strat });
    // very long: hundreds of data (more than 256 datum ids), wide variants, bursts of removals
    let add_heavy = prop_oneof![
        30 => (shape_strategy(), prop::bool::weighted(0.3), prop::bool::weighted(0.25))
            .prop_map(|((size, align), uninit, alt_spelling)| Req::Add { size: size.min(64 * align), align, uninit, name: None, alt_spelling }),
        2 => any::<u16>().prop_map(|sel| Req::Remove { sel }),
        1 => (any::<u16>(), 2u8..60).prop_map(|(sel, count)| Req::RemoveBurst { sel, count }),
        1 => strat_strategy().prop_map(|strat| Req::Close { strat }),
    ];
    // checkerboard: a wide variant of small data, every second one removed, then additions
    let small_add = (0usize..4, 1usize..4, any::<bool>()).prop_map(|(a, k, uninit)| Req::Add { size: k << a, align: 1 << a, uninit, name: None, alt_spelling: false });
    let checkerboard = (
        prop::collection::vec(small_add, 70..200),
        strat_strategy(),
        any::<bool>(),
        strat_strategy(),
        prop::collection::vec(req_strategy(strat_strategy().boxed()), 1..40),
        strat_strategy(),
    )
        .prop_map(|(adds, s1, phase, s2, tail, final_strat)| {
            let mut reqs = adds;
            reqs.push(Req::Close { strat: s1 });
            reqs.push(Req::RemoveEveryOther { phase });
            reqs.push(Req::Close { strat: s2 });
            reqs.extend(tail);
            History { reqs, final_strat }
        });
    let very_long = (prop::collection::vec(add_heavy, 270..420), strat_strategy()).prop_map(|(reqs, final_strat)| History { reqs, final_strat });
    // huge: a record of 600-1500 small columns, then one step that removes many of them and / or adds many
    // (products live x added and live x removed above 2^17, more than 1024 additions in one close), then a tail
    let column = (0usize..4, 1usize..4, prop::bool::weighted(0.3)).prop_map(|(a, k, uninit)| Req::Add { size: k << a, align: 1 << a, uninit, name: None, alt_spelling: false });
    let huge = (
        (prop::collection::vec(column.clone(), 600..1500), strat_strategy()),
        prop_oneof![2 => Just(0usize), 2 => 1usize..6, 3 => 100usize..300],
        prop_oneof![3 => 1usize..8, 3 => 100usize..220, 1 => 1025usize..1200],
        any::<u16>(),
        strat_strategy(),
        prop::collection::vec(req_strategy(strat_strategy().boxed()), 0..12),
        strat_strategy(),
    )
        .prop_map(|((mut reqs, s1), removals, additions, sel, s2, tail, final_strat)| {
            reqs.push(Req::Close { strat: s1 });
            let mut left = removals;
            let mut k = 0u16;
            while left > 0 {
                let count = left.min(50);
                reqs.push(Req::RemoveBurst { sel: sel.wrapping_add(k.wrapping_mul(7919)), count: count.max(2) as u8 });
                left -= count;
                k += 1;
            }
            for i in 0..additions {
                let a = (i * 7 + sel as usize) % 4;
                reqs.push(Req::Add { size: (1 + i % 3) << a, align: 1 << a, uninit: i % 3 == 0, name: None, alt_spelling: false });
            }
            reqs.push(Req::Close { strat: s2 });
            reqs.extend(tail);
            History { reqs, final_strat }
        });
    prop_oneof![120 => mixed, 56 => mono, 16 => long, 2 => very_long, 3 => checkerboard, 1 => huge].boxed()
}

// ---------------------------------------------------------------------------------------------
// Classes

#[derive(Clone, Debug, Default)]
pub struct Classes {
    pub variants: usize,
    pub ge3_variants: bool,
    pub removal_then_later_add: bool,
    pub add_then_remove_before_close: bool,
    pub empty_first_variant: bool,
    pub removal_only_variant: bool,
    pub uninit_only_variant: bool,
    pub has_zst: bool,
    pub has_non_pow2_size: bool,
    pub mixed_strategies: bool,
    pub basic_after_simple: bool,
    pub gap_reused: bool,
    pub distinct_aligns: usize,
    pub middle_insertion: bool,
    pub name_reused: bool,
}

impl Classes {
    pub fn labels(&self) -> Vec<&'static str> {
        let mut v = Vec::new();
        if self.ge3_variants {
            v.push("ge3_variants");
        }
        if self.removal_then_later_add {
            v.push("removal_then_later_add");
        }
        if self.add_then_remove_before_close {
            v.push("add_then_remove_before_close");
        }
        if self.empty_first_variant {
            v.push("empty_first_variant");
        }
        if self.removal_only_variant {
            v.push("removal_only_variant");
        }
        if self.uninit_only_variant {
            v.push("uninit_only_variant");
        }
        if self.has_zst {
            v.push("has_zst");
        }
        if self.has_non_pow2_size {
            v.push("has_non_pow2_size");
        }
        if self.mixed_strategies {
            v.push("mixed_strategies");
        }
        if self.basic_after_simple {
            v.push("basic_after_simple");
        }
        if self.gap_reused {
            v.push("gap_reused");
        }
        if self.distinct_aligns >= 2 {
            v.push("ge2_distinct_aligns");
        }
        if self.middle_insertion {
            v.push("middle_insertion");
        }
        if self.name_reused {
            v.push("name_reused");
        }
        v
    }
}

pub fn classify(trace: &Trace) -> Classes {
    let mut c = Classes::default();
    let created: Vec<&CloseObs> = trace.closes.iter().filter(|c| c.created).collect();
    c.variants = created.len();
    c.ge3_variants = created.len() >= 3;
    c.add_then_remove_before_close = trace.removed_while_pending > 0;
    c.empty_first_variant = created.first().map_or(false, |c| c.list.is_empty());
    let mut seen_removal = false;
    let mut strategies = std::collections::BTreeSet::new();
    let mut seen_simple = false;
    let mut aligns = std::collections::BTreeSet::new();
    let mut prev_end = 0usize;
    let mut prev_ids: Vec<usize> = Vec::new();
    for (i, cl) in created.iter().enumerate() {
        if seen_removal && !cl.added.is_empty() {
            c.removal_then_later_add = true;
        }
        if !cl.removed.is_empty() {
            seen_removal = true;
        }
        if i > 0 && cl.added.is_empty() && !cl.removed.is_empty() {
            c.removal_only_variant = true;
        }
        if !cl.list.is_empty() && cl.list.iter().all(|d| d.uninit) {
            c.uninit_only_variant = true;
        }
        strategies.insert(cl.strat);
        if cl.strat == Strat::Basic && seen_simple {
            c.basic_after_simple = true;
        }
        if cl.strat == Strat::Simple {
            seen_simple = true;
        }
        for (pos, d) in cl.list.iter().enumerate() {
            if d.size == 0 {
                c.has_zst = true;
            }
            if d.size > 0 && !d.size.is_power_of_two() {
                c.has_non_pow2_size = true;
            }
            aligns.insert(d.align);
            if cl.added.contains(&d.id) {
                if i > 0 && d.size > 0 && d.offset < prev_end {
                    c.gap_reused = true;
                }
                // inserted before a datum carried over from the previous variant
                if cl.list[pos + 1..].iter().any(|e| prev_ids.contains(&e.id)) {
                    c.middle_insertion = true;
                }
            }
        }
        prev_end = cl.list.iter().map(|d| d.offset + d.size).max().unwrap_or(0);
        prev_ids = cl.list.iter().map(|d| d.id).collect();
    }
    {
        let mut by_name: std::collections::BTreeMap<&str, usize> = std::collections::BTreeMap::new();
        for cl in &created {
            for d in &cl.list {
                match by_name.get(d.name.as_str()) {
                    Some(&id) if id != d.id => c.name_reused = true,
                    _ => {
                        by_name.insert(d.name.as_str(), d.id);
                    }
                }
            }
        }
    }
    c.mixed_strategies = strategies.len() >= 2;
    c.distinct_aligns = aligns.len();
    c
}
