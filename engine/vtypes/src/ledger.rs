//! Per-thread ledger of token values and the clone fuse.

use std::cell::{Cell, RefCell};

#[derive(Default)]
struct Ledger {
    next: u64,
    live: Vec<u64>,
    errors: Vec<String>,
}

thread_local! {
    static LEDGER: RefCell<Ledger> = RefCell::new(Ledger { next: 1, live: Vec::new(), errors: Vec::new() });
    static ZST_LIVE: Cell<i64> = const { Cell::new(0) };
    /// Number of token clones still allowed before a clone panics (negative: unlimited).
    static FUSE: Cell<i64> = const { Cell::new(-1) };
    /// Payload value that makes `Deserialize` of a token fail.
    static CREATED: Cell<u64> = const { Cell::new(0) };
}

pub const POISON: u32 = 0xDEAD_0BAD;

pub fn ledger_reset() {
    LEDGER.with(|l| {
        let mut l = l.borrow_mut();
        l.next = 1;
        l.live.clear();
        l.errors.clear();
    });
    ZST_LIVE.with(|z| z.set(0));
    FUSE.with(|f| f.set(-1));
    CREATED.with(|c| c.set(0));
}

pub fn ledger_new() -> u64 {
    CREATED.with(|c| c.set(c.get() + 1));
    LEDGER.with(|l| {
        let mut l = l.borrow_mut();
        let id = l.next;
        l.next += 1;
        l.live.push(id);
        id
    })
}

pub fn ledger_retire(id: u64, what: &str) {
    let _ = LEDGER.try_with(|l| {
        if let Ok(mut l) = l.try_borrow_mut() {
            if let Some(pos) = l.live.iter().position(|&x| x == id) {
                l.live.swap_remove(pos);
            } else if l.errors.len() < 16 {
                l.errors.push(format!("{} #{} destroyed although it is not live (destroyed twice, or never created)", what, id));
            }
        }
    });
}

pub fn ledger_live() -> Vec<u64> {
    let mut v = LEDGER.with(|l| l.borrow().live.clone());
    v.sort_unstable();
    v
}

pub fn ledger_take_errors() -> Vec<String> {
    LEDGER.with(|l| std::mem::take(&mut l.borrow_mut().errors))
}

pub fn ledger_created() -> u64 {
    CREATED.with(|c| c.get())
}

pub fn zst_new() {
    CREATED.with(|c| c.set(c.get() + 1));
    ZST_LIVE.with(|z| z.set(z.get() + 1));
}

pub fn zst_retire() {
    let _ = ZST_LIVE.try_with(|z| z.set(z.get() - 1));
}

pub fn zst_live() -> i64 {
    ZST_LIVE.with(|z| z.get())
}

/// Arms the clone fuse: the n-th token clone from now on panics (n >= 1).
pub fn fuse_set(n: i64) {
    FUSE.with(|f| f.set(n));
}

pub fn fuse_clear() {
    FUSE.with(|f| f.set(-1));
}

pub struct FusePanic;

/// Called by every token `Clone`.
pub fn fuse_tick() {
    FUSE.with(|f| {
        let v = f.get();
        if v > 0 {
            f.set(v - 1);
            if v == 1 {
                f.set(-1);
                std::panic::panic_any(FusePanic);
            }
        }
    });
}
