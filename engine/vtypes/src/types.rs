//! The field types.

use serde::{de::Error as _, Deserialize, Deserializer, Serialize, Serializer};

use crate::{fuse_tick, ledger_new, ledger_retire, mix, zst_new, zst_retire, FieldType, POISON};

// ---------------------------------------------------------------------------------------------
// Plain integers and friends

macro_rules! int_field {
    ($($t:ty),*) => {$(
        impl FieldType for $t {
            fn make(seed: u64) -> Self { mix(seed) as $t }
            fn digest(&self) -> u64 { *self as u64 }
            fn expect(seed: u64) -> u64 { (mix(seed) as $t) as u64 }
            fn mutate(&mut self, seed: u64) { *self = mix(seed) as $t; }
        }
    )*};
}
int_field!(u8, u16, u32, u64, i8, i16, i32, i64, usize);

impl FieldType for u128 {
    fn make(seed: u64) -> Self {
        ((mix(seed) as u128) << 64) | mix(seed ^ 0x1234) as u128
    }
    fn digest(&self) -> u64 {
        (*self >> 64) as u64 ^ (*self as u64).rotate_left(17)
    }
    fn expect(seed: u64) -> u64 {
        Self::make(seed).digest()
    }
    fn mutate(&mut self, seed: u64) {
        *self = Self::make(seed);
    }
}

impl FieldType for bool {
    fn make(seed: u64) -> Self {
        mix(seed) & 1 == 1
    }
    fn digest(&self) -> u64 {
        *self as u64
    }
    fn expect(seed: u64) -> u64 {
        mix(seed) & 1
    }
    fn mutate(&mut self, seed: u64) {
        *self = Self::make(seed);
    }
}

impl FieldType for char {
    fn make(seed: u64) -> Self {
        char::from_u32((mix(seed) % 0xD000) as u32).unwrap_or('x')
    }
    fn digest(&self) -> u64 {
        *self as u64
    }
    fn expect(seed: u64) -> u64 {
        Self::make(seed) as u64
    }
    fn mutate(&mut self, seed: u64) {
        *self = Self::make(seed);
    }
}

impl FieldType for () {
    fn make(_seed: u64) -> Self {}
    fn digest(&self) -> u64 {
        0
    }
    fn expect(_seed: u64) -> u64 {
        0
    }
    fn mutate(&mut self, _seed: u64) {}
}

macro_rules! array_field {
    ($($t:ty, $n:expr);*) => {$(
        impl FieldType for [$t; $n] {
            fn make(seed: u64) -> Self {
                let mut i = 0u64;
                [(); $n].map(|_| { i += 1; <$t as FieldType>::make(seed.wrapping_mul(31).wrapping_add(i)) })
            }
            fn digest(&self) -> u64 {
                let mut h = 0xcbf29ce484222325u64;
                for x in self.iter() {
                    h = (h ^ x.digest()).wrapping_mul(0x100000001b3);
                }
                h
            }
            fn expect(seed: u64) -> u64 {
                let mut h = 0xcbf29ce484222325u64;
                for i in 1..=($n as u64) {
                    h = (h ^ <$t as FieldType>::expect(seed.wrapping_mul(31).wrapping_add(i))).wrapping_mul(0x100000001b3);
                }
                h
            }
            fn mutate(&mut self, seed: u64) {
                let mut i = 0u64;
                for x in self.iter_mut() {
                    i += 1;
                    x.mutate(seed.wrapping_mul(31).wrapping_add(i));
                }
            }
        }
    )*};
}
array_field!(u8, 3; u16, 3; u32, 3; u64, 3; u64, 0; u8, 5; u8, 20);

impl FieldType for (u8, u32) {
    fn make(seed: u64) -> Self {
        (u8::make(seed), u32::make(seed ^ 7))
    }
    fn digest(&self) -> u64 {
        ((self.0 as u64) << 32) | self.1 as u64
    }
    fn expect(seed: u64) -> u64 {
        Self::make(seed).digest()
    }
    fn mutate(&mut self, seed: u64) {
        *self = Self::make(seed);
    }
}

// ---------------------------------------------------------------------------------------------
// Over-aligned plain data

#[derive(Clone, Copy, Debug, PartialEq, Eq, Serialize, Deserialize)]
#[repr(align(16))]
pub struct A16(pub [u8; 16]);

impl FieldType for A16 {
    fn make(seed: u64) -> Self {
        let a = mix(seed).to_le_bytes();
        let b = mix(seed ^ 0x55).to_le_bytes();
        let mut v = [0u8; 16];
        v[..8].copy_from_slice(&a);
        v[8..].copy_from_slice(&b);
        A16(v)
    }
    fn digest(&self) -> u64 {
        let mut h = 0xcbf29ce484222325u64;
        for x in self.0 {
            h = (h ^ x as u64).wrapping_mul(0x100000001b3);
        }
        h
    }
    fn expect(seed: u64) -> u64 {
        Self::make(seed).digest()
    }
    fn mutate(&mut self, seed: u64) {
        *self = Self::make(seed);
    }
}

#[derive(Clone, Copy, Debug, PartialEq, Eq, Serialize, Deserialize)]
#[repr(align(32))]
pub struct A32(pub u8);

impl FieldType for A32 {
    fn make(seed: u64) -> Self {
        A32(mix(seed) as u8)
    }
    fn digest(&self) -> u64 {
        self.0 as u64
    }
    fn expect(seed: u64) -> u64 {
        (mix(seed) as u8) as u64
    }
    fn mutate(&mut self, seed: u64) {
        self.0 = mix(seed) as u8;
    }
}

/// Alignment 64 (a cache line), 64 bytes.
#[derive(Clone, Copy, Debug, PartialEq, Eq, Serialize, Deserialize)]
#[repr(align(64))]
pub struct A64(pub u32);

impl FieldType for A64 {
    fn make(seed: u64) -> Self {
        A64(mix(seed) as u32)
    }
    fn digest(&self) -> u64 {
        self.0 as u64
    }
    fn expect(seed: u64) -> u64 {
        (mix(seed) as u32) as u64
    }
    fn mutate(&mut self, seed: u64) {
        self.0 = mix(seed) as u32;
    }
}

/// Alignment 128 (two cache lines).
#[derive(Clone, Copy, Debug, PartialEq, Eq, Serialize, Deserialize)]
#[repr(align(128))]
pub struct A128(pub u16);

impl FieldType for A128 {
    fn make(seed: u64) -> Self {
        A128(mix(seed) as u16)
    }
    fn digest(&self) -> u64 {
        self.0 as u64
    }
    fn expect(seed: u64) -> u64 {
        (mix(seed) as u16) as u64
    }
    fn mutate(&mut self, seed: u64) {
        self.0 = mix(seed) as u16;
    }
}

/// 320 bytes of plain data.
#[derive(Clone, Copy, Debug, PartialEq, Eq)]
pub struct Wide320(pub [u64; 40]);

impl Serialize for Wide320 {
    fn serialize<S: Serializer>(&self, s: S) -> Result<S::Ok, S::Error> {
        self.0.to_vec().serialize(s)
    }
}

impl<'de> Deserialize<'de> for Wide320 {
    fn deserialize<D: Deserializer<'de>>(d: D) -> Result<Self, D::Error> {
        let v = Vec::<u64>::deserialize(d)?;
        let a: [u64; 40] = v.try_into().map_err(|_| D::Error::custom("expected 40 words"))?;
        Ok(Wide320(a))
    }
}

impl FieldType for Wide320 {
    fn make(seed: u64) -> Self {
        let mut i = 0u64;
        Wide320([(); 40].map(|_| {
            i += 1;
            mix(seed.wrapping_mul(131).wrapping_add(i))
        }))
    }
    fn digest(&self) -> u64 {
        let mut h = 0xcbf29ce484222325u64;
        for x in self.0.iter() {
            h = (h ^ *x).wrapping_mul(0x100000001b3);
        }
        h
    }
    fn expect(seed: u64) -> u64 {
        Self::make(seed).digest()
    }
    fn mutate(&mut self, seed: u64) {
        *self = Self::make(seed);
    }
}


/// Large plain data: `$words` 64-bit words under the given alignment (serialised as a sequence).
macro_rules! wide_plain {
    ($name:ident, $words:expr, $(#[$attr:meta])*) => {
        $(#[$attr])*
        #[derive(Clone, Copy, Debug, PartialEq, Eq)]
        pub struct $name(pub [u64; $words]);

        impl Serialize for $name {
            fn serialize<S: Serializer>(&self, s: S) -> Result<S::Ok, S::Error> {
                self.0.to_vec().serialize(s)
            }
        }

        impl<'de> Deserialize<'de> for $name {
            fn deserialize<D: Deserializer<'de>>(d: D) -> Result<Self, D::Error> {
                let v = Vec::<u64>::deserialize(d)?;
                let a: Box<[u64; $words]> = v.into_boxed_slice().try_into().map_err(|_| D::Error::custom("wrong number of words"))?;
                Ok($name(*a))
            }
        }

        impl FieldType for $name {
            fn make(seed: u64) -> Self {
                let mut a = [0u64; $words];
                for (i, x) in a.iter_mut().enumerate() {
                    *x = mix(seed.wrapping_mul(131).wrapping_add(i as u64 + 1));
                }
                $name(a)
            }
            fn digest(&self) -> u64 {
                let mut h = 0xcbf29ce484222325u64;
                for x in self.0.iter() {
                    h = (h ^ *x).wrapping_mul(0x100000001b3);
                }
                h
            }
            fn expect(seed: u64) -> u64 {
                Self::make(seed).digest()
            }
            fn mutate(&mut self, seed: u64) {
                *self = Self::make(seed);
            }
        }
    };
}

// 8 KiB on a cache line (larger than a page-sized threshold), 80 000 bytes (larger than 64 KiB)
wide_plain!(Tile8K, 1024, #[repr(C, align(64))]);
wide_plain!(Buf80K, 10000, #[repr(C)]);

/// Zero-size, alignment 16, no drop glue.
#[derive(Clone, Copy, Debug, PartialEq, Eq, Serialize, Deserialize, Default)]
#[repr(align(16))]
pub struct Z16;

impl FieldType for Z16 {
    fn make(_seed: u64) -> Self {
        Z16
    }
    fn digest(&self) -> u64 {
        0
    }
    fn expect(_seed: u64) -> u64 {
        0
    }
    fn mutate(&mut self, _seed: u64) {}
}

// ---------------------------------------------------------------------------------------------
// Owned std types

impl FieldType for String {
    fn make(seed: u64) -> Self {
        if mix(seed) % 61 == 0 {
            // longer than 65535 bytes
            let mut s = String::with_capacity(70_016);
            while s.len() < 70_000 {
                s.push_str(&format!("{:x}", mix(seed ^ s.len() as u64)));
            }
            return s;
        }
        format!("s{:x}", mix(seed))
    }
    fn digest(&self) -> u64 {
        let mut h = 0xcbf29ce484222325u64;
        for b in self.bytes() {
            h = (h ^ b as u64).wrapping_mul(0x100000001b3);
        }
        h
    }
    fn expect(seed: u64) -> u64 {
        Self::make(seed).digest()
    }
    fn mutate(&mut self, seed: u64) {
        let v = <String as FieldType>::make(seed);
        self.clear();
        self.push_str(&v);
    }
}

impl FieldType for Vec<u32> {
    fn make(seed: u64) -> Self {
        let n = if mix(seed) % 61 == 1 { 66_000 } else { (mix(seed) % 5) as usize };
        (0..n).map(|i| mix(seed + i as u64) as u32).collect()
    }
    fn digest(&self) -> u64 {
        let mut h = 0xcbf29ce484222325u64 ^ self.len() as u64;
        for b in self.iter() {
            h = (h ^ *b as u64).wrapping_mul(0x100000001b3);
        }
        h
    }
    fn expect(seed: u64) -> u64 {
        Self::make(seed).digest()
    }
    fn mutate(&mut self, seed: u64) {
        let n = if mix(seed) % 61 == 1 { 66_000 } else { (mix(seed) % 5) as usize };
        self.clear();
        self.extend((0..n).map(|i| mix(seed + i as u64) as u32));
    }
}

impl FieldType for Box<str> {
    fn make(seed: u64) -> Self {
        format!("b{:x}", mix(seed) as u32).into_boxed_str()
    }
    fn digest(&self) -> u64 {
        let mut h = 0xcbf29ce484222325u64;
        for b in self.bytes() {
            h = (h ^ b as u64).wrapping_mul(0x100000001b3);
        }
        h
    }
    fn expect(seed: u64) -> u64 {
        Self::make(seed).digest()
    }
    fn mutate(&mut self, seed: u64) {
        *self = Self::make(seed);
    }
}

impl FieldType for Option<String> {
    fn make(seed: u64) -> Self {
        if mix(seed) % 4 == 0 {
            None
        } else {
            Some(String::make(seed))
        }
    }
    fn digest(&self) -> u64 {
        match self {
            None => 1,
            Some(s) => s.digest() ^ 0xF00D,
        }
    }
    fn expect(seed: u64) -> u64 {
        Self::make(seed).digest()
    }
    fn mutate(&mut self, seed: u64) {
        *self = Self::make(seed);
    }
}

impl FieldType for [String; 2] {
    fn make(seed: u64) -> Self {
        [String::make(seed), String::make(seed ^ 0x99)]
    }
    fn digest(&self) -> u64 {
        self[0].digest().rotate_left(7) ^ self[1].digest()
    }
    fn expect(seed: u64) -> u64 {
        Self::make(seed).digest()
    }
    fn mutate(&mut self, seed: u64) {
        self[0].mutate(seed);
        self[1].mutate(seed ^ 0x99);
    }
}

// ---------------------------------------------------------------------------------------------
// Ledger tokens

fn payload_of(seed: u64) -> u32 {
    let p = mix(seed) as u32;
    if p == POISON {
        1
    } else {
        p
    }
}

macro_rules! token {
    ($name:ident, $idty:ty, $pty:ty, $(#[$attr:meta])* { $($extra:ident : $ety:ty = $einit:expr),* }) => {
        $(#[$attr])*
        #[derive(Debug)]
        pub struct $name {
            id: $idty,
            payload: $pty,
            $($extra: $ety,)*
        }
        impl $name {
            fn with_payload(payload: $pty) -> Self {
                $name { id: ledger_new() as $idty, payload, $($extra: $einit,)* }
            }
        }
        impl FieldType for $name {
            fn make(seed: u64) -> Self {
                Self::with_payload(payload_of(seed) as $pty)
            }
            fn digest(&self) -> u64 { self.payload as u64 }
            fn expect(seed: u64) -> u64 { (payload_of(seed) as $pty) as u64 }
            fn mutate(&mut self, seed: u64) { self.payload = payload_of(seed) as $pty; }
            fn tok_ids(&self) -> Vec<u64> { vec![self.id as u64] }
        }
        impl Drop for $name {
            fn drop(&mut self) {
                ledger_retire(self.id as u64, stringify!($name));
            }
        }
        impl Clone for $name {
            fn clone(&self) -> Self {
                fuse_tick();
                Self::with_payload(self.payload)
            }
            fn clone_from(&mut self, source: &Self) {
                fuse_tick();
                self.payload = source.payload;
            }
        }
        impl Serialize for $name {
            fn serialize<S: Serializer>(&self, s: S) -> Result<S::Ok, S::Error> {
                (self.payload as u32).serialize(s)
            }
        }
        impl<'de> Deserialize<'de> for $name {
            fn deserialize<D: Deserializer<'de>>(d: D) -> Result<Self, D::Error> {
                let p = u32::deserialize(d)?;
                if p == POISON {
                    return Err(D::Error::custom("poisoned token payload"));
                }
                Ok(Self::with_payload(p as $pty))
            }
        }
    };
}

token!(Tok8, u32, u32, #[repr(C, align(8))] {});
token!(Tok4, u16, u16, #[repr(C, align(4))] {});
token!(Tok12, u32, u32, #[repr(C, align(4))] { pad: u32 = 0x0C0C0C0C });
token!(Tok16, u32, u32, #[repr(C, align(16))] {});
token!(TokBox, u32, u32, #[repr(C)] { b: Box<u64> = Box::new(0xB0B0) });

token!(BigTok, u32, u32, #[repr(C, align(8))] { pad: [u64; 12] = [0xB16B16B16B16B16B; 12] });

/// A vector of tokens (element clones consult the clone fuse).
impl FieldType for Vec<Tok8> {
    fn make(seed: u64) -> Self {
        let n = 1 + (mix(seed) % 3) as usize;
        (0..n).map(|i| Tok8::make(seed.wrapping_add(i as u64 * 0x1F))).collect()
    }
    fn digest(&self) -> u64 {
        let mut h = 0xcbf29ce484222325u64 ^ self.len() as u64;
        for t in self.iter() {
            h = (h ^ t.digest()).wrapping_mul(0x100000001b3);
        }
        h
    }
    fn expect(seed: u64) -> u64 {
        let n = 1 + (mix(seed) % 3) as usize;
        let mut h = 0xcbf29ce484222325u64 ^ n as u64;
        for i in 0..n {
            h = (h ^ Tok8::expect(seed.wrapping_add(i as u64 * 0x1F))).wrapping_mul(0x100000001b3);
        }
        h
    }
    fn mutate(&mut self, seed: u64) {
        let n = 1 + (mix(seed) % 3) as usize;
        self.truncate(n);
        while self.len() < n {
            self.push(Tok8::make(0));
        }
        for (i, t) in self.iter_mut().enumerate() {
            t.mutate(seed.wrapping_add(i as u64 * 0x1F));
        }
    }
    fn tok_ids(&self) -> Vec<u64> {
        self.iter().flat_map(|t| t.tok_ids()).collect()
    }
}

impl FieldType for [u64; 12] {
    fn make(seed: u64) -> Self {
        let mut i = 0u64;
        [(); 12].map(|_| {
            i += 1;
            mix(seed.wrapping_mul(31).wrapping_add(i))
        })
    }
    fn digest(&self) -> u64 {
        let mut h = 0xcbf29ce484222325u64;
        for x in self.iter() {
            h = (h ^ *x).wrapping_mul(0x100000001b3);
        }
        h
    }
    fn expect(seed: u64) -> u64 {
        Self::make(seed).digest()
    }
    fn mutate(&mut self, seed: u64) {
        *self = Self::make(seed);
    }
}

token!(HugeTok, u32, u32, #[repr(C, align(8))] { pad: [u64; 160] = [0x4855474548554745; 160] });
// exactly 256 bytes
// a droppable value aligned above 16, and a droppable value above 4 KiB
token!(TokA32, u32, u32, #[repr(C, align(32))] {});
token!(Blob5K, u32, u32, #[repr(C, align(8))] { pad: [u64; 640] = [0x0B10B5B10B5B10B5; 640] });
token!(Tok256, u32, u32, #[repr(C, align(8))] { pad: [u64; 31] = [0x0256025602560256; 31] });

impl FieldType for f64 {
    fn make(seed: u64) -> Self {
        match mix(seed) % 9 {
            0 => f64::NAN,
            1 => f64::INFINITY,
            2 => f64::NEG_INFINITY,
            3 => -0.0,
            // exactly representable, at most 13 significant decimal digits: survives serde_json's
            // (not correctly rounded by default) float parser
            _ => ((mix(seed ^ 0xF10A7) % (1 << 30)) as f64) / 8.0 - 1000.0,
        }
    }
    fn digest(&self) -> u64 {
        // all NaNs are one value for the purpose of the comparison
        if self.is_nan() {
            0x7ff8_0000_0000_0001
        } else {
            self.to_bits()
        }
    }
    fn expect(seed: u64) -> u64 {
        Self::make(seed).digest()
    }
    fn mutate(&mut self, seed: u64) {
        *self = Self::make(seed);
    }
    fn json_safe(&self) -> bool {
        self.is_finite()
    }
}

fn fp0(x: u32) -> u32 {
    x.wrapping_add(1)
}
fn fp1(x: u32) -> u32 {
    x.wrapping_mul(3)
}
fn fp2(x: u32) -> u32 {
    x ^ 0xA5A5
}
fn fp3(x: u32) -> u32 {
    x.rotate_left(5)
}
const FPS: [fn(u32) -> u32; 4] = [fp0, fp1, fp2, fp3];

impl FieldType for fn(u32) -> u32 {
    fn make(seed: u64) -> Self {
        FPS[(mix(seed) % 4) as usize]
    }
    fn digest(&self) -> u64 {
        self(0x1234_5678) as u64
    }
    fn expect(seed: u64) -> u64 {
        FPS[(mix(seed) % 4) as usize](0x1234_5678) as u64
    }
    fn mutate(&mut self, seed: u64) {
        *self = Self::make(seed);
    }
}

impl FieldType for *const u8 {
    fn make(seed: u64) -> Self {
        std::ptr::without_provenance((mix(seed) as usize) | 1)
    }
    fn digest(&self) -> u64 {
        self.addr() as u64
    }
    fn expect(seed: u64) -> u64 {
        ((mix(seed) as usize) | 1) as u64
    }
    fn mutate(&mut self, seed: u64) {
        *self = Self::make(seed);
    }
}

/// A reference that is not `Copy` (the referents are leaked: a few bytes per value).
impl FieldType for &'static mut u32 {
    fn make(seed: u64) -> Self {
        Box::leak(Box::new(mix(seed) as u32))
    }
    fn digest(&self) -> u64 {
        **self as u64
    }
    fn expect(seed: u64) -> u64 {
        (mix(seed) as u32) as u64
    }
    fn mutate(&mut self, seed: u64) {
        **self = mix(seed) as u32;
    }
}

impl FieldType for Box<dyn Fn(u32) -> u32 + Send + Sync> {
    fn make(seed: u64) -> Self {
        let k = mix(seed) as u32;
        Box::new(move |x| x.wrapping_add(k))
    }
    fn digest(&self) -> u64 {
        self(0) as u64
    }
    fn expect(seed: u64) -> u64 {
        (mix(seed) as u32) as u64
    }
    fn mutate(&mut self, seed: u64) {
        *self = Self::make(seed);
    }
}

use crate::string;

impl FieldType for string::String<8> {
    fn make(seed: u64) -> Self {
        string::String(mix(seed).to_le_bytes())
    }
    fn digest(&self) -> u64 {
        u64::from_le_bytes(self.0)
    }
    fn expect(seed: u64) -> u64 {
        mix(seed)
    }
    fn mutate(&mut self, seed: u64) {
        *self = Self::make(seed);
    }
}

/// 3 bytes, alignment 1.
#[derive(Debug)]
#[repr(C)]
pub struct Tok3 {
    id: [u8; 2],
    payload: u8,
}

impl Tok3 {
    fn with_payload(payload: u8) -> Self {
        Tok3 {
            id: (ledger_new() as u16).to_le_bytes(),
            payload,
        }
    }
}

impl FieldType for Tok3 {
    fn make(seed: u64) -> Self {
        Self::with_payload(payload_of(seed) as u8)
    }
    fn digest(&self) -> u64 {
        self.payload as u64
    }
    fn expect(seed: u64) -> u64 {
        (payload_of(seed) as u8) as u64
    }
    fn mutate(&mut self, seed: u64) {
        self.payload = payload_of(seed) as u8;
    }
    fn tok_ids(&self) -> Vec<u64> {
        vec![u16::from_le_bytes(self.id) as u64]
    }
}

impl Drop for Tok3 {
    fn drop(&mut self) {
        ledger_retire(u16::from_le_bytes(self.id) as u64, "Tok3");
    }
}

impl Clone for Tok3 {
    fn clone(&self) -> Self {
        fuse_tick();
        Self::with_payload(self.payload)
    }
    fn clone_from(&mut self, source: &Self) {
        fuse_tick();
        self.payload = source.payload;
    }
}

impl Serialize for Tok3 {
    fn serialize<S: Serializer>(&self, s: S) -> Result<S::Ok, S::Error> {
        (self.payload as u32).serialize(s)
    }
}

impl<'de> Deserialize<'de> for Tok3 {
    fn deserialize<D: Deserializer<'de>>(d: D) -> Result<Self, D::Error> {
        let p = u32::deserialize(d)?;
        if p == POISON {
            return Err(D::Error::custom("poisoned token payload"));
        }
        Ok(Self::with_payload(p as u8))
    }
}

/// Zero-size token with a counted `Drop`.
#[derive(Debug)]
pub struct TokZ;

impl FieldType for TokZ {
    fn make(_seed: u64) -> Self {
        zst_new();
        TokZ
    }
    fn digest(&self) -> u64 {
        0
    }
    fn expect(_seed: u64) -> u64 {
        0
    }
    fn mutate(&mut self, _seed: u64) {}
}

impl Drop for TokZ {
    fn drop(&mut self) {
        zst_retire();
    }
}

impl Clone for TokZ {
    fn clone(&self) -> Self {
        fuse_tick();
        zst_new();
        TokZ
    }
    fn clone_from(&mut self, _source: &Self) {
        fuse_tick();
    }
}

impl Serialize for TokZ {
    fn serialize<S: Serializer>(&self, s: S) -> Result<S::Ok, S::Error> {
        0u32.serialize(s)
    }
}

impl<'de> Deserialize<'de> for TokZ {
    fn deserialize<D: Deserializer<'de>>(d: D) -> Result<Self, D::Error> {
        let p = u32::deserialize(d)?;
        if p == POISON {
            return Err(D::Error::custom("poisoned token payload"));
        }
        zst_new();
        Ok(TokZ)
    }
}

// ---------------------------------------------------------------------------------------------
// Auto-trait markers (C14) and generic user types (C17)

pub struct NotSendNotSync(pub std::rc::Rc<u8>);
pub struct SendNotSync(pub std::cell::Cell<u8>);
pub struct SyncNotSend(pub std::marker::PhantomData<std::sync::MutexGuard<'static, ()>>, pub u8);
pub struct RawPtr(pub *const u8);
pub struct SendSync(pub u32);

pub struct Plain(pub u16);
pub struct Two<A, B>(pub A, pub B);
pub mod inner {
    pub struct Gen<T>(pub T);
    pub mod deeper {
        pub struct Deep<T>(pub Option<T>);
    }
}

#[cfg(test)]
mod tests {
    use super::*;
    use std::mem::{align_of, size_of};

    fn law<T: FieldType>() {
        crate::ledger_reset();
        for seed in [0u64, 1, 2, 99, u64::MAX, 0xDEAD_0BAD] {
            let mut v = T::make(seed);
            assert_eq!(v.digest(), T::expect(seed));
            v.mutate(seed ^ 0xABCD);
            assert_eq!(v.digest(), T::expect(seed ^ 0xABCD));
        }
    }

    #[test]
    fn laws() {
        law::<u8>(); law::<u16>(); law::<u32>(); law::<u64>(); law::<u128>(); law::<usize>(); law::<bool>(); law::<char>();
        law::<()>(); law::<[u8; 3]>(); law::<[u16; 3]>(); law::<[u32; 3]>(); law::<[u64; 3]>(); law::<[u64; 0]>(); law::<[u8; 5]>();
        law::<(u8, u32)>(); law::<A16>(); law::<A32>(); law::<Z16>(); law::<String>(); law::<Vec<u32>>(); law::<Box<str>>();
        law::<Option<String>>(); law::<[String; 2]>(); law::<Tok8>(); law::<Tok4>(); law::<Tok12>(); law::<Tok16>();
        law::<TokBox>(); law::<Tok3>(); law::<TokZ>(); law::<BigTok>(); law::<Vec<Tok8>>(); law::<[u64; 12]>(); law::<A64>(); law::<Wide320>(); law::<HugeTok>(); law::<Tok256>(); law::<A128>(); law::<&'static mut u32>(); law::<f64>(); law::<fn(u32) -> u32>(); law::<*const u8>(); law::<Box<dyn Fn(u32) -> u32 + Send + Sync>>(); law::<string::String<8>>(); law::<[u8; 20]>(); law::<TokA32>(); law::<Blob5K>(); law::<Tile8K>(); law::<Buf80K>();
        assert!(crate::ledger_live().is_empty());
        assert_eq!(crate::zst_live(), 0);
        assert!(crate::ledger_take_errors().is_empty());
    }

    #[test]
    fn layouts() {
        assert_eq!((size_of::<Tok8>(), align_of::<Tok8>()), (8, 8));
        assert_eq!((size_of::<Tok4>(), align_of::<Tok4>()), (4, 4));
        assert_eq!((size_of::<Tok12>(), align_of::<Tok12>()), (12, 4));
        assert_eq!((size_of::<Tok16>(), align_of::<Tok16>()), (16, 16));
        assert_eq!((size_of::<Tok3>(), align_of::<Tok3>()), (3, 1));
        assert_eq!((size_of::<TokZ>(), align_of::<TokZ>()), (0, 1));
        assert_eq!((size_of::<Z16>(), align_of::<Z16>()), (0, 16));
        assert_eq!((size_of::<A16>(), align_of::<A16>()), (16, 16));
        assert_eq!((size_of::<A32>(), align_of::<A32>()), (32, 32));
        assert_eq!(size_of::<Tok256>(), 256);
        assert_eq!((size_of::<TokA32>(), align_of::<TokA32>()), (32, 32));
        assert_eq!(size_of::<Blob5K>(), 5128);
        assert_eq!((size_of::<Tile8K>(), align_of::<Tile8K>()), (8192, 64));
        assert_eq!(size_of::<Buf80K>(), 80000);
    }
}
