//! The menu of field types generated definitions draw from.

#[derive(Clone, Copy, Debug)]
pub struct MenuEntry {
    /// How the type is written in harness code (the definitions record truc's own name for it).
    pub rust: &'static str,
    pub copy: bool,
    /// Values own tracked ledger tokens (one, or several for containers).
    pub token: bool,
    /// Zero-size type with a counted Drop.
    pub zst_counted: bool,
    /// Has drop glue.
    pub droppable: bool,
    /// Usable in definitions generated with the serde fragment.
    pub serde_ok: bool,
    /// Usable in definitions generated with the clone fragment.
    pub clone_ok: bool,
}

const fn e(rust: &'static str, copy: bool, token: bool, zst_counted: bool, droppable: bool, serde_ok: bool) -> MenuEntry {
    MenuEntry { rust, copy, token, zst_counted, droppable, serde_ok, clone_ok: true }
}

const fn x(rust: &'static str, copy: bool, droppable: bool, clone_ok: bool) -> MenuEntry {
    MenuEntry { rust, copy, token: false, zst_counted: false, droppable, serde_ok: false, clone_ok }
}

pub const MENU: [MenuEntry; 50] = [
    e("u8", true, false, false, false, true),
    e("u16", true, false, false, false, true),
    e("u32", true, false, false, false, true),
    e("u64", true, false, false, false, true),
    e("u128", true, false, false, false, false),
    e("[u8; 3]", true, false, false, false, true),
    e("[u16; 3]", true, false, false, false, true),
    e("[u32; 3]", true, false, false, false, true),
    e("[u64; 3]", true, false, false, false, true),
    e("(u8, u32)", true, false, false, false, true),
    e("char", true, false, false, false, true),
    e("bool", true, false, false, false, true),
    e("()", true, false, false, false, true),
    e("[u64; 0]", true, false, false, false, true),
    e("vtypes::Z16", true, false, false, false, true),
    e("vtypes::A16", true, false, false, false, true),
    e("vtypes::A32", true, false, false, false, true),
    e("String", false, false, false, true, true),
    e("Vec<u32>", false, false, false, true, true),
    e("Box<str>", false, false, false, true, true),
    e("Option<String>", false, false, false, true, true),
    e("[String; 2]", false, false, false, true, true),
    e("vtypes::Tok8", false, true, false, true, true),
    e("vtypes::Tok4", false, true, false, true, true),
    e("vtypes::Tok3", false, true, false, true, true),
    e("vtypes::Tok12", false, true, false, true, true),
    e("vtypes::Tok16", false, true, false, true, true),
    e("vtypes::TokBox", false, true, false, true, true),
    e("vtypes::TokZ", false, false, true, true, true),
    e("usize", true, false, false, false, true),
    e("[u8; 5]", true, false, false, false, true),
    e("vtypes::BigTok", false, true, false, true, true),
    e("Vec<vtypes::Tok8>", false, true, false, true, true),
    e("[u64; 12]", true, false, false, false, true),
    e("vtypes::A64", true, false, false, false, true),
    e("vtypes::Wide320", true, false, false, false, true),
    e("vtypes::HugeTok", false, true, false, true, true),
    e("f64", true, false, false, false, true),
    x("fn(u32) -> u32", true, false, true),
    x("*const u8", true, false, true),
    x("Box<dyn Fn(u32) -> u32 + Send + Sync>", false, true, false),
    x("vtypes::string::String<8>", true, false, true),
    e("vtypes::Tok256", false, true, false, true, true),
    e("vtypes::A128", true, false, false, false, true),
    x("&'static mut u32", false, false, false),
    e("[u8; 20]", true, false, false, false, true),
    e("vtypes::TokA32", false, true, false, true, true),
    e("vtypes::Blob5K", false, true, false, true, true),
    e("vtypes::Tile8K", true, false, false, false, true),
    x("vtypes::Buf80K", true, false, true),
];

/// Evaluates `$body` with `$t` bound to the menu type of index `$idx`.
#[macro_export]
macro_rules! with_menu_type {
    ($idx:expr, $t:ident => $body:expr) => {
        match $idx {
            0 => { type $t = u8; $body }
            1 => { type $t = u16; $body }
            2 => { type $t = u32; $body }
            3 => { type $t = u64; $body }
            4 => { type $t = u128; $body }
            5 => { type $t = [u8; 3]; $body }
            6 => { type $t = [u16; 3]; $body }
            7 => { type $t = [u32; 3]; $body }
            8 => { type $t = [u64; 3]; $body }
            9 => { type $t = (u8, u32); $body }
            10 => { type $t = char; $body }
            11 => { type $t = bool; $body }
            12 => { type $t = (); $body }
            13 => { type $t = [u64; 0]; $body }
            14 => { type $t = $crate::Z16; $body }
            15 => { type $t = $crate::A16; $body }
            16 => { type $t = $crate::A32; $body }
            17 => { type $t = String; $body }
            18 => { type $t = Vec<u32>; $body }
            19 => { type $t = Box<str>; $body }
            20 => { type $t = Option<String>; $body }
            21 => { type $t = [String; 2]; $body }
            22 => { type $t = $crate::Tok8; $body }
            23 => { type $t = $crate::Tok4; $body }
            24 => { type $t = $crate::Tok3; $body }
            25 => { type $t = $crate::Tok12; $body }
            26 => { type $t = $crate::Tok16; $body }
            27 => { type $t = $crate::TokBox; $body }
            28 => { type $t = $crate::TokZ; $body }
            29 => { type $t = usize; $body }
            30 => { type $t = [u8; 5]; $body }
            31 => { type $t = $crate::BigTok; $body }
            32 => { type $t = Vec<$crate::Tok8>; $body }
            33 => { type $t = [u64; 12]; $body }
            34 => { type $t = $crate::A64; $body }
            35 => { type $t = $crate::Wide320; $body }
            36 => { type $t = $crate::HugeTok; $body }
            37 => { type $t = f64; $body }
            38 => { type $t = fn(u32) -> u32; $body }
            39 => { type $t = *const u8; $body }
            40 => { type $t = Box<dyn Fn(u32) -> u32 + Send + Sync>; $body }
            41 => { type $t = $crate::string::String<8>; $body }
            42 => { type $t = $crate::Tok256; $body }
            43 => { type $t = $crate::A128; $body }
            44 => { type $t = &'static mut u32; $body }
            45 => { type $t = [u8; 20]; $body }
            46 => { type $t = $crate::TokA32; $body }
            47 => { type $t = $crate::Blob5K; $body }
            48 => { type $t = $crate::Tile8K; $body }
            _ => { type $t = $crate::Buf80K; $body }
        }
    };
}

/// Same for the `Copy` types of the menu: evaluates to `Some($body)`, or to `None` when the type is not `Copy`.
#[macro_export]
macro_rules! with_copy_menu_type {
    ($idx:expr, $t:ident => $body:expr) => {
        match $idx {
            0 => { type $t = u8; Some($body) }
            1 => { type $t = u16; Some($body) }
            2 => { type $t = u32; Some($body) }
            3 => { type $t = u64; Some($body) }
            4 => { type $t = u128; Some($body) }
            5 => { type $t = [u8; 3]; Some($body) }
            6 => { type $t = [u16; 3]; Some($body) }
            7 => { type $t = [u32; 3]; Some($body) }
            8 => { type $t = [u64; 3]; Some($body) }
            9 => { type $t = (u8, u32); Some($body) }
            10 => { type $t = char; Some($body) }
            11 => { type $t = bool; Some($body) }
            12 => { type $t = (); Some($body) }
            13 => { type $t = [u64; 0]; Some($body) }
            14 => { type $t = $crate::Z16; Some($body) }
            15 => { type $t = $crate::A16; Some($body) }
            16 => { type $t = $crate::A32; Some($body) }
            29 => { type $t = usize; Some($body) }
            30 => { type $t = [u8; 5]; Some($body) }
            33 => { type $t = [u64; 12]; Some($body) }
            34 => { type $t = $crate::A64; Some($body) }
            35 => { type $t = $crate::Wide320; Some($body) }
            37 => { type $t = f64; Some($body) }
            38 => { type $t = fn(u32) -> u32; Some($body) }
            39 => { type $t = *const u8; Some($body) }
            41 => { type $t = $crate::string::String<8>; Some($body) }
            43 => { type $t = $crate::A128; Some($body) }
            45 => { type $t = [u8; 20]; Some($body) }
            48 => { type $t = $crate::Tile8K; Some($body) }
            49 => { type $t = $crate::Buf80K; Some($body) }
            _ => None,
        }
    };
}

#[cfg(test)]
mod tests {
    use super::*;
    #[test]
    fn menu_flags_match_the_types() {
        for idx in 0..MENU.len() {
            fn is_copy<T: Copy>() -> bool { true }
            assert_eq!(with_copy_menu_type!(idx, T => is_copy::<T>()).is_some(), MENU[idx].copy, "copy flag of {}", MENU[idx].rust);
            let (needs_drop, size) = with_menu_type!(idx, T => (std::mem::needs_drop::<T>(), std::mem::size_of::<T>()));
            assert_eq!(needs_drop, MENU[idx].droppable, "droppable flag of {}", MENU[idx].rust);
            if MENU[idx].zst_counted {
                assert_eq!(size, 0);
            }
        }
    }
}
