//! Field types used in generated record definitions: plain data, owned std types, ledger tokens
//! (every value registered at creation and retired in `Drop`), zero-size and over-aligned types,
//! auto-trait markers.

pub mod ledger;
pub mod menu;
pub mod types;

/// A user type whose path ends like a std one (`vtypes::string::String<N>`).
pub mod string {
    #[derive(Clone, Copy, Debug, PartialEq, Eq)]
    pub struct String<const N: usize>(pub [u8; N]);
}

pub use ledger::*;
pub use menu::*;
pub use types::*;

/// What the drivers need from a field type.
pub trait FieldType: Sized + 'static {
    /// A value determined by the seed.
    fn make(seed: u64) -> Self;
    /// Digest of the current value; `make(seed).digest() == Self::expect(seed)`.
    fn digest(&self) -> u64;
    fn expect(seed: u64) -> u64;
    /// Changes the value in place (no new ledger identity) so that `digest() == expect(seed)`.
    fn mutate(&mut self, seed: u64);
    /// Whether JSON can carry the current value (not the case of non-finite floats).
    fn json_safe(&self) -> bool {
        true
    }
    /// Ledger identities of the tracked token values this value owns.
    fn tok_ids(&self) -> Vec<u64> {
        Vec::new()
    }
}

/// Object-safe view of a field value handed back by generated code.
pub trait DynField {
    fn dyn_digest(&self) -> u64;
    fn dyn_tok_ids(&self) -> Vec<u64>;
}

impl<T: FieldType> DynField for T {
    fn dyn_digest(&self) -> u64 {
        self.digest()
    }
    fn dyn_tok_ids(&self) -> Vec<u64> {
        self.tok_ids()
    }
}

pub fn mix(seed: u64) -> u64 {
    let mut z = seed.wrapping_add(0x9E3779B97F4A7C15);
    z = (z ^ (z >> 30)).wrapping_mul(0xBF58476D1CE4E5B9);
    z = (z ^ (z >> 27)).wrapping_mul(0x94D049BB133111EB);
    z ^ (z >> 31)
}

// User types at paths whose segments look like pieces of type syntax (digits followed by a primitive's name,
// names of std crates and modules): same layouts, distinct types.
pub mod vec3_usize {
    pub struct Point(pub u32);
}
pub mod vec3 {
    pub struct Point(pub u32);
}
pub mod core {
    pub mod option {
        pub struct Option2(pub u32);
    }
}
pub mod alloc {
    pub mod vec {
        pub struct Vec3(pub u32);
    }
}
pub mod i32_f64 {
    #[allow(non_camel_case_types)]
    pub struct Mixed_isize(pub u32);
}
pub mod x86_64 {
    pub struct Reg8_u8(pub u32);
}
