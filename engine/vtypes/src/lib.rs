//! Field types used in generated record definitions: plain data, owned std types, ledger tokens
//! (every value registered at creation and retired in `Drop`), zero-size and over-aligned types,
//! auto-trait markers.

pub mod ledger;
pub mod menu;
pub mod types;

/// A user type whose path ends like a std one (`vtypes::string::String<N>`).
pub mod string {
    #[derive(Clone, Copy, Debug, PartialEq, Eq)]
    pub struct String<const N: usize>(pub [u8; N]);
}

pub use ledger::*;
pub use menu::*;
pub use types::*;

/// What the drivers need from a field type.
pub trait FieldType: Sized + 'static {
    /// A value determined by the seed.
    fn make(seed: u64) -> Self;
    /// Digest of the current value; `make(seed).digest() == Self::expect(seed)`.
    fn digest(&self) -> u64;
    fn expect(seed: u64) -> u64;
    /// Changes the value in place (no new ledger identity) so that `digest() == expect(seed)`.
    fn mutate(&mut self, seed: u64);
    /// Whether JSON can carry the current value (not the case of non-finite floats).
    fn json_safe(&self) -> bool {
        true
    }
    /// Ledger identities of the tracked token values this value owns.
    fn tok_ids(&self) -> Vec<u64> {
        Vec::new()
    }
}

/// Object-safe view of a field value handed back by generated code.
pub trait DynField {
    fn dyn_digest(&self) -> u64;
    fn dyn_tok_ids(&self) -> Vec<u64>;
}

impl<T: FieldType> DynField for T {
    fn dyn_digest(&self) -> u64 {
        self.digest()
    }
    fn dyn_tok_ids(&self) -> Vec<u64> {
        self.tok_ids()
    }
}

pub fn mix(seed: u64) -> u64 {
    let mut z = seed.wrapping_add(0x9E3779B97F4A7C15);
    z = (z ^ (z >> 30)).wrapping_mul(0xBF58476D1CE4E5B9);
    z = (z ^ (z >> 27)).wrapping_mul(0x94D049BB133111EB);
    z ^ (z >> 31)
}
