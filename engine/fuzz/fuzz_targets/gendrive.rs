//! F3: coverage-guided search over operation sequences on compiled generated modules, under
//! AddressSanitizer and with the verif-hooks on. The batch of definitions is the one in
//! VERIF_GEN_DIR at build time; the oracle of the property named by VERIF_FUZZ_PROP runs inside.
#![no_main]

#[macro_use]
extern crate static_assertions;

include!(concat!(env!("VERIF_GEN_DIR"), "/all.rs"));

use std::sync::OnceLock;

use libfuzzer_sys::fuzz_target;
use vdrive::{check_case, decode_case, DefGlue, DefInfo};

type Defs = Vec<(&'static dyn DefGlue, &'static dyn DefGlue, DefInfo)>;
static DEFS: OnceLock<Defs> = OnceLock::new();
static PROP: OnceLock<&'static str> = OnceLock::new();

fuzz_target!(|data: &[u8]| {
    let defs = DEFS.get_or_init(|| {
        std::panic::set_hook(Box::new(|_| {}));
        all_defs()
            .into_iter()
            .map(|(a, b)| {
                let info: DefInfo = serde_json::from_str(a.info_json()).expect("definition info");
                (a, b, info)
            })
            .collect()
    });
    let prop = *PROP.get_or_init(|| match std::env::var("VERIF_FUZZ_PROP").unwrap_or_default().as_str() {
        "C04" => "C04",
        "C05" => "C05",
        "C06" => "C06",
        "C16" => "C16",
        _ => "C07",
    });
    let case = decode_case(data);
    if let Err(f) = check_case(prop, defs, &case) {
        let eligible: Vec<usize> = (0..defs.len()).filter(|&k| prop != "C16" || defs[k].2.has_clone()).collect();
        let d = &defs[eligible[vcore::pick(case.def, eligible.len().max(1)).min(eligible.len().saturating_sub(1))]].2;
        eprintln!(
            "FUZZ-FAILURE {}",
            serde_json::json!({"property": prop, "signature": f.signature, "message": f.message, "case": case,
                               "definition_index": d.index, "definition_history": d.history})
        );
        std::process::abort();
    }
});
