//! F2: coverage-guided search over in-place vector conversion scenarios, under AddressSanitizer.
#![no_main]

use std::sync::Once;

use arbitrary::Unstructured;
use e4_vecconv::{check_mismatch, check_scenario, Action, FailKind, MismatchCase, PrevUse, Scenario};
use libfuzzer_sys::fuzz_target;

static INIT: Once = Once::new();

fn decode_scenario(u: &mut Unstructured, with_failure: bool) -> Scenario {
    let pair = u.arbitrary::<u8>().unwrap_or(0);
    let b = u.arbitrary::<u8>().unwrap_or(0);
    let failure = if with_failure {
        let sel = u.arbitrary::<u16>().unwrap_or(0);
        let kind = match u.arbitrary::<u8>().unwrap_or(0) % 7 {
            5 => FailKind::PanicAfterPrevReplaced,
            6 => FailKind::ErrAfterPrevReplaced,
            0 => FailKind::ErrRet,
            1 => FailKind::PanicBefore,
            2 => FailKind::PanicAfterDrop,
            3 => FailKind::PanicAfterBuild,
            _ => FailKind::PanicAfterPrevModified,
        };
        Some((sel, kind))
    } else {
        None
    };
    let mut actions = vec![];
    while !u.is_empty() && actions.len() < 64 {
        let a = u.arbitrary::<u8>().unwrap_or(0);
        actions.push(Action {
            convert: a & 1 == 1,
            prev: match (a >> 1) % 4 {
                0 => PrevUse::Ignore,
                1 => PrevUse::Read,
                2 => PrevUse::Replace(a >> 3),
                _ => PrevUse::Modify(a >> 3),
            },
        });
    }
    Scenario { pair, spare: (b % 9) as u16, actions, try_entry: b & 0x80 != 0, failure, in_unwind: b & 0x70 == 0x70 }
}

fn report(prop: &str, case: serde_json::Value, sig: &str, msg: &str) -> ! {
    eprintln!("FUZZ-FAILURE {}", serde_json::json!({"property": prop, "signature": sig, "message": msg, "case": case}));
    std::process::abort();
}

fuzz_target!(|data: &[u8]| {
    INIT.call_once(|| std::panic::set_hook(Box::new(|_| {})));
    let prop = std::env::var("VERIF_FUZZ_PROP").unwrap_or_else(|_| "C08".to_string());
    let mut u = Unstructured::new(data);
    match prop.as_str() {
        "C10" => {
            let c = MismatchCase {
                from: u.arbitrary::<u8>().unwrap_or(0),
                to: u.arbitrary::<u8>().unwrap_or(1),
                len: u.arbitrary::<u8>().unwrap_or(0) % 48,
                spare: u.arbitrary::<u16>().unwrap_or(0) % 5000,
                try_entry: u.arbitrary::<bool>().unwrap_or(false),
                unwinding: u.arbitrary::<u8>().unwrap_or(0) % 5 == 0,
            };
            if let Err(f) = check_mismatch(&c) {
                report(&prop, serde_json::to_value(&c).unwrap(), &f.signature, &f.message);
            }
        }
        "C09" => {
            let sc = decode_scenario(&mut u, true);
            match check_scenario(&sc) {
                Err(f) if !f.signature.starts_with("c08:") => report(&prop, serde_json::to_value(&sc).unwrap(), &f.signature, &f.message),
                _ => {}
            }
        }
        _ => {
            let sc = decode_scenario(&mut u, false);
            if let Err(f) = check_scenario(&sc) {
                report(&prop, serde_json::to_value(&sc).unwrap(), &f.signature, &f.message);
            }
        }
    }
});
