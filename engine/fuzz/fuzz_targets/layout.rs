//! F1: coverage-guided search over builder histories. Every byte string decodes to a history
//! (total decoder); the oracle of the property named by VERIF_FUZZ_PROP runs inside the target.
#![no_main]

use std::sync::Once;

use arbitrary::Unstructured;
use e1_layout::{c12, layout};
use libfuzzer_sys::fuzz_target;
use vcore::{Failure, History, Req, Strat};

static INIT: Once = Once::new();

fn strat(b: u8) -> Strat {
    Strat::ALL[(b % 4) as usize]
}

fn decode_history(u: &mut Unstructured) -> History {
    let final_strat = strat(u.arbitrary::<u8>().unwrap_or(0));
    let mut reqs = vec![];
    while !u.is_empty() && reqs.len() < 160 {
        let op = u.arbitrary::<u8>().unwrap_or(0) % 11;
        match op {
            10 => reqs.push(Req::RemoveEveryOther { phase: u.arbitrary::<bool>().unwrap_or(false) }),
            9 => reqs.push(Req::RemoveBurst { sel: u.arbitrary::<u16>().unwrap_or(0), count: 2 + u.arbitrary::<u8>().unwrap_or(0) % 40 }),
            0..=4 => {
                let b = u.arbitrary::<u8>().unwrap_or(0);
                let c = u.arbitrary::<u8>().unwrap_or(0);
                let align = 1usize << (b % 13);
                let k = ((b >> 3) % 8) as usize;
                reqs.push(Req::Add {
                    size: k * align,
                    align,
                    uninit: c & 1 == 1,
                    name: if (c >> 1) % 10 < 6 { Some((c >> 1) % 10) } else { None },
                    alt_spelling: c & 0x80 != 0,
                });
            }
            5 | 6 => reqs.push(Req::Remove { sel: u.arbitrary::<u16>().unwrap_or(0) }),
            _ => reqs.push(Req::Close { strat: strat(u.arbitrary::<u8>().unwrap_or(0)) }),
        }
    }
    History { reqs, final_strat }
}

fn decode_adv(u: &mut Unstructured) -> c12::AdvHistory {
    let flags = u.arbitrary::<u8>().unwrap_or(0);
    let mut reqs = vec![];
    while !u.is_empty() && reqs.len() < 48 {
        let op = u.arbitrary::<u8>().unwrap_or(0) % 13;
        match op {
            0..=4 => {
                let b = u.arbitrary::<u8>().unwrap_or(0);
                let c = u.arbitrary::<u8>().unwrap_or(0);
                let align = 1usize << (b % 5);
                reqs.push(c12::AdvReq::Add {
                    name: if c % 10 < 7 { Some(c % 6) } else { None },
                    size: ((b >> 3) % 8) as usize * align,
                    align,
                    uninit: c & 0x80 != 0,
                    via: (b >> 6) + (c >> 6),
                });
            }
            5 | 6 => reqs.push(c12::AdvReq::RemoveCurrent { sel: u.arbitrary::<u16>().unwrap_or(0) }),
            7 | 8 => reqs.push(c12::AdvReq::RemoveIssued { sel: u.arbitrary::<u16>().unwrap_or(0) }),
            9 => reqs.push(c12::AdvReq::RemoveUnknown { beyond: u.arbitrary::<u8>().unwrap_or(0) % 4 }),
            11 => reqs.push(c12::AdvReq::RemoveBurst { sel: u.arbitrary::<u16>().unwrap_or(0), count: 2 + u.arbitrary::<u8>().unwrap_or(0) % 60 }),
            _ => reqs.push(c12::AdvReq::Close { strat: strat(u.arbitrary::<u8>().unwrap_or(0)) }),
        }
    }
    c12::AdvHistory { native: flags & 1 == 1, reqs, build_anyway: flags & 2 == 2, final_strat: strat(flags >> 2), quiet: flags & 0x80 != 0 }
}

fn report(prop: &str, case: serde_json::Value, f: Failure) -> ! {
    eprintln!(
        "FUZZ-FAILURE {}",
        serde_json::json!({"property": prop, "signature": f.signature, "message": f.message, "case": case})
    );
    std::process::abort();
}

fuzz_target!(|data: &[u8]| {
    // checks catch the panics of the code under test themselves
    INIT.call_once(|| std::panic::set_hook(Box::new(|_| {})));
    let prop = std::env::var("VERIF_FUZZ_PROP").unwrap_or_else(|_| "C01".to_string());
    let mut u = Unstructured::new(data);
    if prop == "C12" {
        let h = decode_adv(&mut u);
        if let Err(f) = c12::check_c12(&h) {
            report(&prop, serde_json::to_value(&h).unwrap(), f);
        }
        return;
    }
    let h = decode_history(&mut u);
    let r = match prop.as_str() {
        "C02" => layout::check_c02(&h),
        "C03" => layout::check_c03(&h),
        "C13" => layout::check_c13(&h),
        "C19" => layout::check_c19(&h),
        "C20" => layout::check_c20(&layout::C20Case { source: h.clone(), target_strats: vec![strat(data.len() as u8), strat(data.first().copied().unwrap_or(0))] }),
        _ => layout::check_c01(&h),
    };
    if let Err(f) = r {
        let case = if prop == "C20" {
            serde_json::to_value(&layout::C20Case { source: h.clone(), target_strats: vec![strat(data.len() as u8), strat(data.first().copied().unwrap_or(0))] }).unwrap()
        } else {
            serde_json::to_value(&h).unwrap()
        };
        report(&prop, case, f);
    }
});
